"""Helpers shared by rule modules: role-based anchor discovery."""
from __future__ import annotations

import ast
import copy
from typing import Dict, List, Optional, Set, Tuple

from ..core import AnalysisError, ClassInfo, FuncInfo, Index, call_name, calls_in, dotted, is_self_attr, norm, param_names, walk_local

CHANGE_BASE = "rope.base.change.Change"


def change_classes(idx: Index) -> List[ClassInfo]:
    idx.need_class(CHANGE_BASE)
    return [idx.classes[q] for q in idx.subclasses(CHANGE_BASE) if q.startswith("rope.base.change.")]


def composite_change(idx: Index) -> ClassInfo:
    """The Change subclass that defines do and undo and iterates a list
    attribute of sub-changes in both."""
    for c in change_classes(idx):
        do, undo = c.methods.get("do"), c.methods.get("undo")
        if not (do and undo):
            continue
        loops = [n for n in walk_local(do.node) if isinstance(n, ast.For)]
        # (`changes = self.changes` ... `for change in changes`: a local bound once is read through)
        if any(any(is_self_attr(x) for x in ast.walk(_subst_single_locals(do.node, l.iter))) for l in loops):
            return c
    raise AnalysisError("anchor=role:composite-change (class with do/undo iterating a list of sub-changes) not found")


def job_wrapper(idx: Index) -> Tuple[FuncInfo, ast.FunctionDef, List[FuncInfo]]:
    """The decorator applied to do/undo of the primitive changes: returns
    (decorator function, inner wrapper def, wrapped methods)."""
    counts: Dict[str, List[FuncInfo]] = {}
    for c in change_classes(idx):
        for m in ("do", "undo"):
            f = c.methods.get(m)
            if f:
                for d in f.decorator_names():
                    q = idx.resolve_dotted(c.unit.modname, d)
                    counts.setdefault(q, []).append(f)
    if not counts:
        raise AnalysisError("anchor=role:job-wrapper (decorator on do/undo of Change subclasses) not found")
    q = max(counts, key=lambda k: len(counts[k]))
    deco = idx.need_func(q)
    inner = [n for n in deco.node.body if isinstance(n, ast.FunctionDef)]
    if len(inner) != 1:
        raise AnalysisError(f"anchor=role:job-wrapper inner function of {q} not unique")
    return deco, inner[0], counts[q]


def list_attrs_of_init(cls: ClassInfo) -> Set[str]:
    """self.X = [] in __init__."""
    out = set()
    init = cls.methods.get("__init__")
    if init:
        for n in walk_local(init.node):
            if isinstance(n, ast.Assign) and isinstance(n.value, ast.List) and not n.value.elts:
                for t in n.targets:
                    if is_self_attr(t):
                        out.add(t.attr)
    return out


def property_aliases(cls: ClassInfo) -> Dict[str, str]:
    """name = property(lambda self: self.X)  or  @property def name(self): return self.X"""
    out = {}
    for name, v in cls.class_attrs.items():
        if isinstance(v, ast.Call) and call_name(v) == "property" and v.args and isinstance(v.args[0], ast.Lambda):
            b = v.args[0].body
            if is_self_attr(b):
                out[name] = b.attr
    for name, f in cls.methods.items():
        if "property" in f.decorator_names() and len(f.node.body) == 1 and isinstance(f.node.body[0], ast.Return):
            b = f.node.body[0].value
            if b is not None and is_self_attr(b):
                out[name] = b.attr
    return out


MUTATORS = {"append", "pop", "remove", "insert", "clear", "extend", "reverse", "sort", "appendleft", "popleft",
            "update", "add", "discard", "setdefault", "popitem"}


def mutated_exprs(stmt: ast.AST) -> List[ast.expr]:
    """Expressions (receivers) mutated in place by this statement/expression."""
    out = []
    for n in [stmt, *walk_local(stmt)]:
        if isinstance(n, ast.Call) and isinstance(n.func, ast.Attribute) and n.func.attr in MUTATORS:
            out.append(n.func.value)
        elif isinstance(n, ast.Delete):
            for t in n.targets:
                if isinstance(t, ast.Subscript):
                    out.append(t.value)
        elif isinstance(n, (ast.Assign, ast.AugAssign, ast.AnnAssign)):
            ts = n.targets if isinstance(n, ast.Assign) else [n.target]
            for t in ts:
                if isinstance(t, ast.Subscript):
                    out.append(t.value)
                elif isinstance(n, ast.AugAssign):
                    out.append(t)
    return out


def explicit_raises(fn: ast.AST) -> List[ast.Raise]:
    return [n for n in walk_local(fn) if isinstance(n, ast.Raise)]


def file_list_filter_rule(ctx, res, rule: str) -> None:
    """Ownership of the cached file listing (shared by C09 and C13): every element that enters the cached collection of
    the project's file-list cacher is dominated by a negative `is_ignored(<that element>)` test.  The listing is what
    every project-wide refactoring iterates, so an unfiltered insertion makes rope edit an ignored module, and makes a
    long-lived project list files a fresh one does not."""
    from ..cfg import CFG
    from ..core import AnalysisError, call_name, calls_in

    idx = ctx.idx
    cls = idx.need_class("rope.base.project._FileListCacher")
    init = cls.methods.get("__init__")
    if init is None or "get_files" not in cls.methods:
        raise AnalysisError("anchor=_FileListCacher: __init__/get_files missing")
    cache_attrs = set()
    for n in walk_local(init.node):
        if isinstance(n, ast.Assign) and isinstance(n.value, ast.Constant) and n.value.value is None:
            cache_attrs |= {t.attr for t in n.targets if is_self_attr(t)}
    if not cache_attrs:
        raise AnalysisError("anchor=_FileListCacher: no cache attribute initialised to None")
    ADDERS = {"add", "append", "insert", "update", "extend", "appendleft"}

    def is_empty(v: ast.AST) -> bool:
        return (isinstance(v, ast.Constant) and v.value is None) or \
            (isinstance(v, ast.Call) and call_name(v) in ("set", "list", "dict", "frozenset") and not v.args) or \
            (isinstance(v, (ast.List, ast.Set, ast.Tuple)) and not v.elts)

    def filtered(elem: ast.AST, tests) -> bool:
        for t, pol in tests:
            if isinstance(t, ast.Call) and call_name(t) == "is_ignored" and t.args and norm(t.args[0]) == norm(elem) and pol is False:
                return True
        return False

    n = 0
    for mname, m in sorted(cls.methods.items()):
        cfg = CFG(m.node)
        alias = {}
        k = 0
        for x in walk_local(m.node):
            if isinstance(x, ast.Assign) and len(x.targets) == 1 and isinstance(x.targets[0], ast.Name) \
                    and is_self_attr(x.value) and x.value.attr in cache_attrs:
                alias[x.targets[0].id] = x.value.attr
        for node in cfg.nodes:
            if node.kind not in ("stmt", "test") or node.ast is None:
                continue
            a = node.ast
            sites = []  # (element expr or None, description)
            for c in [x for x in ([a] if isinstance(a, ast.Call) else []) + calls_in(a)]:
                if isinstance(c.func, ast.Attribute) and c.func.attr in ADDERS:
                    r = c.func.value
                    if (is_self_attr(r) and r.attr in cache_attrs) or (isinstance(r, ast.Name) and r.id in alias):
                        elem = c.args[-1] if c.args and c.func.attr in ("add", "append", "insert", "appendleft") else None
                        sites.append((elem, c))
            if isinstance(a, (ast.Assign, ast.AugAssign)):
                for t in (a.targets if isinstance(a, ast.Assign) else [a.target]):
                    if is_self_attr(t) and t.attr in cache_attrs and not is_empty(a.value):
                        sites.append((None, a.value))
            for elem, site in sites:
                n += 1
                k += 1
                key = f"{cls.name}.{mname}|insert#{k}"
                where = f"{m.unit.rel}:{getattr(site, 'lineno', node.lineno)}"
                if elem is not None:
                    ok = filtered(elem, cfg.guards(node.id))
                    res.add(rule, key, ok, where,
                            f"{ast.unparse(elem)} enters the cached listing only after `not is_ignored({ast.unparse(elem)})`" if ok else
                            f"{cls.name}.{mname} inserts {ast.unparse(elem)} into the cached file listing without testing is_ignored({ast.unparse(elem)}): "
                            "an ignored resource (e.g. a module moved or renamed into an ignored location) stays in get_files()/get_python_files(), "
                            "so later project-wide refactorings list and rewrite it, and the listing differs from a freshly opened project's",
                            function=m.qualname)
                elif isinstance(site, (ast.SetComp, ast.ListComp, ast.GeneratorExp)) or (
                        isinstance(site, ast.Call) and site.args and isinstance(site.args[0], (ast.SetComp, ast.ListComp, ast.GeneratorExp))):
                    comp = site if not isinstance(site, ast.Call) else site.args[0]
                    tests = []
                    for g in comp.generators:
                        for i in g.ifs:
                            if isinstance(i, ast.UnaryOp) and isinstance(i.op, ast.Not):
                                tests.append((i.operand, False))
                    ok = filtered(comp.elt, tests)
                    res.add(rule, key, ok, where, "comprehension filters on is_ignored" if ok else
                            f"{cls.name}.{mname} rebuilds the cached file listing without an is_ignored filter on its elements", function=m.qualname)
                else:
                    res.undecided(rule, key, where, "bulk insertion into the cached listing: element filter not recognised")
    res.floor(rule, "insertions into the cached file listing", n, 1)


def hard_keyword_rule(ctx, res, rule: str) -> None:
    """Shared by C14 and C20: the word finder has no grammar context, so the only words it may refuse to treat as (part
    of) a primary are HARD keywords.  Soft keywords (match, case, type, _) are legal identifiers; a reference to the
    soft-keyword oracle anywhere in the word finder cuts identifiers spelled like them out of their attribute chain."""
    idx = ctx.idx
    unit = idx.need_unit("rope.base.worder")
    hard = soft = 0
    for f in sorted((f for f in idx.functions.values() if f.unit is unit), key=lambda f: f.qualname):
        refs = [x for x in ast.walk(f.node) if isinstance(x, ast.Attribute) and isinstance(x.value, ast.Name) and x.value.id == "keyword"]
        refs += [x for x in ast.walk(f.node) if isinstance(x, ast.Name) and x.id in ("issoftkeyword", "softkwlist", "iskeyword", "kwlist")]
        for x in refs:
            nm = x.attr if isinstance(x, ast.Attribute) else x.id
            if nm in ("iskeyword", "kwlist"):
                hard += 1
                res.ok(rule, f"{f.qualname.split('.', 2)[-1]}|{nm}", f"{f.unit.rel}:{x.lineno}", "keyword test uses the hard-keyword oracle")
            elif nm in ("issoftkeyword", "softkwlist"):
                soft += 1
                res.fail(rule, f"{f.qualname.split('.', 2)[-1]}|{nm}", f"{f.unit.rel}:{x.lineno}",
                         f"{f.name} consults keyword.{nm}: identifiers spelled match / case / type / _ are treated as keywords by the word finder, so "
                         "`match(p).group` is cut to `(p).group`, go-to-definition and completion on such names answer nothing or raise",
                         function=f.qualname)
    res.floor(rule, "keyword-oracle references in the word finder", hard + soft, 1)


# functions whose startswith tests compare HIERARCHICAL names (dotted module names, '/'-separated project paths):
# confirmed by reading; one line of reason each.  The prefix must end in the separator, otherwise `pk.utils` counts as
# inside `pk.util` and `/proj2/x.py` as inside `/proj`.
HIERARCHICAL_PREFIX_SITES = {
    "rope.refactor.importutils.actions.AddingVisitor.visitNormalImport": "`import a.b` covers / is covered by `import a`: dotted module names",
    "rope.base.resources.Folder.contains": "is the resource inside this folder: project-relative paths",
    "rope.base.libutils.relative": "is the path inside the project root: real paths",
    "rope.base.pycore.PyCore._builtin_submodules": "submodules of a builtin package: dotted module names",
}


def prefix_boundary_rule(ctx, res, rule: str, sites: List[str]) -> None:
    """every `x.startswith(<non-constant>)` in the listed functions has an argument that ends in a separator constant"""
    idx = ctx.idx
    SEPS = {".", "/", "\\"}

    def ends_in_sep(e: ast.AST) -> bool:
        if isinstance(e, ast.BinOp) and isinstance(e.op, ast.Add):
            r = e.right
            return (isinstance(r, ast.Constant) and isinstance(r.value, str) and r.value[-1:] in SEPS) or \
                (isinstance(r, ast.Attribute) and r.attr in ("sep", "path.sep")) or ends_in_sep(r)
        if isinstance(e, ast.JoinedStr) and e.values:
            last = e.values[-1]
            return isinstance(last, ast.Constant) and isinstance(last.value, str) and last.value[-1:] in SEPS
        return False

    n = 0
    for fq in sites:
        f = idx.need_func(fq)
        k = 0
        for c in calls_in(f.node):
            if isinstance(c.func, ast.Attribute) and c.func.attr == "startswith" and c.args and not isinstance(c.args[0], ast.Constant):
                n += 1
                k += 1
                ok = ends_in_sep(c.args[0])
                res.add(rule, f"{fq.split('.', 2)[-1]}|prefix#{k}", ok, f"{f.unit.rel}:{c.lineno}",
                        "the hierarchical prefix test ends in the separator" if ok else
                        f"{f.name} tests a hierarchical name with `{ast.unparse(c)}`: without the trailing separator a sibling whose name merely begins "
                        "with the same characters counts as contained (`import pk.utils` is taken to provide `pk.util`; `/proj2/x.py` to lie inside `/proj`)",
                        function=f.qualname, reason=HIERARCHICAL_PREFIX_SITES.get(fq, ""))
        if k == 0:
            raise AnalysisError(f"anchor={fq}: no startswith test on a computed prefix (the table in sa/rules/common.py is stale)")
    res.floor(rule, "hierarchical prefix tests", n, len(sites))


# who wins when several sources provide the same name: a fact of the language, per site
MERGE_PRECEDENCE_SITES = {
    "rope.base.pyobjectsdef.PyModule._create_concluded_attributes": ("last", "star_imports", "a later `from m import *` rebinds the names of an earlier one"),
    "rope.base.pyobjectsdef.PyClass._create_concluded_attributes": ("first", "get_superclasses", "attribute lookup takes the first base class that has the name"),
}


def merge_precedence_rule(ctx, res, rule: str, sites=None) -> None:
    """Shared by C01/C02/C15: where name tables of several sources are merged into one dict, the merge discipline
    (update / item store = later wins;  ChainMap / setdefault / `not in` guard = earlier wins) times the iteration order
    over the sources must give the winner the language prescribes."""
    from .c10 import _iter_discipline
    import copy

    idx = ctx.idx
    n = 0
    for fq, (winner, src_name, reason) in sorted((sites or MERGE_PRECEDENCE_SITES).items()):
        f = idx.need_func(fq)
        n += 1
        short = fq.split(".", 3)[-1]
        disc = order = None
        where = f.where
        # (a) explicit loop over the sources with a merge in its body
        for lp in [x for x in walk_local(f.node) if isinstance(x, ast.For)]:
            if not any((isinstance(y, ast.Attribute) and y.attr == src_name) or (isinstance(y, ast.Call) and call_name(y) == src_name) for y in ast.walk(lp.iter)):
                continue
            where = f"{f.unit.rel}:{lp.lineno}"

            class _Sub(ast.NodeTransformer):
                def visit_Attribute(self, node):
                    return ast.Name(id="__src__", ctx=ast.Load()) if node.attr == src_name else self.generic_visit(node)

                def visit_Call(self, node):
                    return ast.Name(id="__src__", ctx=ast.Load()) if call_name(node) == src_name else self.generic_visit(node)

            it = _Sub().visit(copy.deepcopy(lp.iter))
            order = _iter_discipline(ast.For(target=lp.target, iter=it, body=lp.body, orelse=[]), "__src__")
            body_calls = [c for s_ in lp.body for c in ([s_.value] if isinstance(s_, ast.Expr) and isinstance(s_.value, ast.Call) else []) + calls_in(s_)]
            if any(isinstance(c.func, ast.Attribute) and c.func.attr == "update" for c in body_calls):
                disc = "later"
            if any(isinstance(c.func, ast.Attribute) and c.func.attr == "setdefault" for c in body_calls) or \
                    any(isinstance(y, ast.Compare) and isinstance(y.ops[0], ast.NotIn) for s_ in lp.body for y in ast.walk(s_)):
                disc = "earlier"
        # (b) ChainMap(*(… for x in sources)) / {k: v for x in sources for k, v in …}
        if disc is None:
            for c in calls_in(f.node):
                if call_name(c) == "ChainMap":
                    disc = "earlier"
                    gens = [g for y in ast.walk(c) if isinstance(y, (ast.GeneratorExp, ast.ListComp)) for g in y.generators]
                    if gens:
                        it = gens[0].iter
                        order = "backward" if isinstance(it, ast.Call) and call_name(it) == "reversed" else "forward"
                        where = f"{f.unit.rel}:{c.lineno}"
            for y in walk_local(f.node):
                if isinstance(y, ast.DictComp) and len(y.generators) >= 2:
                    disc = "later"
                    it = y.generators[0].iter
                    order = "backward" if isinstance(it, ast.Call) and call_name(it) == "reversed" else "forward"
                    where = f"{f.unit.rel}:{y.lineno}"
        if disc is None or order is None:
            res.undecided(rule, f"{short}|precedence", where, f"merge shape not recognised (discipline={disc}, order={order})")
            continue
        got = "last" if (disc, order) in (("later", "forward"), ("earlier", "backward")) else "first"
        ok = got == winner
        res.add(rule, f"{short}|precedence", ok, where,
                f"on a name clash the {winner} source wins ({disc}-wins merge, {order} iteration)" if ok else
                f"{short} merges the name tables so that the {got.upper()} source wins a clash ({disc}-wins merge, {order} iteration) but {reason}: a name "
                "provided by two sources resolves to the wrong definition, so rename/find-occurrences follow a different binding than the interpreter",
                function=f.qualname, reason=reason)
    res.floor(rule, "name-table merges with a prescribed winner", n, 2)


def module_search_order_rule(ctx, res, rule: str) -> None:
    """Shared by C01/C02/C13: an absolute module name is looked up on the search path (source folders, then the python
    path) BEFORE the importing module's own folder -- the interpreter never searches the importer's folder at all."""
    from ..cfg import CFG

    idx = ctx.idx
    f = idx.need_func("rope.base.project._Project.find_module")
    cfg = CFG(f.node)
    ps = param_names(f.node)
    folder_p = ps[2] if len(ps) > 2 else None
    own = [nd for nd in cfg.nodes if nd.kind == "stmt" and nd.ast is not None and any(
        c.args and isinstance(c.args[0], ast.Name) and c.args[0].id == folder_p for c in calls_in(nd.ast) if call_name(c).startswith("_find_module"))]
    if not own or folder_p is None:
        raise AnalysisError("anchor=_Project.find_module: lookup in the importing module's folder not found")
    for k, src in enumerate(("get_source_folders", "get_python_path_folders"), 1):
        is_loop = lambda nd, src=src: nd.kind == "loop" and isinstance(nd.ast, ast.For) and any(isinstance(c, ast.Call) and call_name(c) == src for c in ast.walk(nd.ast.iter))
        if not any(is_loop(nd) for nd in cfg.nodes):
            raise AnalysisError(f"anchor=_Project.find_module: loop over {src}() not found")
        ok = all(cfg.must_pass_through(cfg.entry.id, nd.id, is_loop) for nd in own)
        res.add(rule, f"find_module|{src}-before-own-folder", ok, f"{f.unit.rel}:{own[0].lineno}",
                f"the importing module's folder is consulted only after {src}()" if ok else
                f"_Project.find_module looks into the importing module's own folder before {src}(): inside a package, `import utils` resolves to the "
                "sibling pkg/utils.py although the interpreter imports the top-level (or standard-library) utils, so occurrences are attributed to the wrong module",
                function=f.qualname)


def relative_level_rule(ctx, res, rule: str) -> None:
    """Shared by C05/C07: `from ..x import y` and `from .. import y` both climb (level - 1) packages before anything is
    looked up.  In find_relative_module every value-returning exit is reached only through the loop over
    range(level - 1) (must-pass-through), so the empty-name case cannot answer with the importer's own package."""
    from ..cfg import CFG

    idx = ctx.idx
    f = idx.need_func("rope.base.project._Project.find_relative_module")
    cfg = CFG(f.node)
    ps = param_names(f.node)
    level_p = ps[3] if len(ps) > 3 else None
    is_climb = lambda nd: nd.kind == "loop" and nd.ast is not None and level_p is not None and any(
        isinstance(y, ast.Name) and y.id == level_p for y in ast.walk(nd.ast.iter if isinstance(nd.ast, ast.For) else nd.ast))
    if not any(is_climb(nd) for nd in cfg.nodes):
        raise AnalysisError("anchor=_Project.find_relative_module: loop over the relative level not found")
    rets = [nd for nd in cfg.nodes if nd.kind == "stmt" and isinstance(nd.ast, ast.Return) and nd.ast.value is not None
            and not (isinstance(nd.ast.value, ast.Constant) and nd.ast.value.value is None)]
    for k, nd in enumerate(rets, 1):
        ok = cfg.must_pass_through(cfg.entry.id, nd.id, is_climb)
        res.add(rule, f"find_relative_module|return#{k}", ok, f"{f.unit.rel}:{nd.lineno}",
                "the answer is computed after climbing (level - 1) packages" if ok else
                f"_Project.find_relative_module returns `{ast.unparse(nd.ast.value)}` on a path that skips the climb over the relative level: "
                "`from .. import util` resolves to the importing module's own package instead of its parent, so the import is rewritten to the wrong "
                "absolute name (relatives_to_absolutes, froms_to_imports) and moved/renamed modules reached that way are not found", function=f.qualname)
    res.floor(rule, "value-returning exits of find_relative_module", len(rets), 2)


# what each primitive of the file-system command classes may do to the disk (resolved callee names)
FS_PRIMITIVE_EFFECTS = {
    "create_file": {"open(w)"},
    "create_folder": {"os.mkdir"},
    "move": {"shutil.move", "os.rename", "os.replace"},
    "remove": {"os.remove", "os.unlink", "shutil.rmtree", "os.rmdir"},
    "write": {"open(w)"},
    "read": set(),
}


def fs_primitive_purity_rule(ctx, res, rule: str) -> None:
    """Shared by C10/C11: undo and rollback replay the INVERSE PRIMITIVE (move back, remove what was created).  That is
    only the inverse if each primitive of the plain file-system commands does its one thing: a move that also creates
    directories, a create that also removes, ... leaves effects no inverse knows about."""
    idx = ctx.idx
    cls = idx.need_class("rope.base.fscommands.FileSystemCommands")
    n = 0
    for mname, allowed in sorted(FS_PRIMITIVE_EFFECTS.items()):
        m = cls.methods.get(mname)
        if m is None:
            raise AnalysisError(f"anchor=FileSystemCommands.{mname} missing")
        n += 1
        effects = []
        for c in calls_in(m.node):
            d = dotted(c.func)
            r = idx.resolve_dotted(m.unit.modname, d) if d else None
            if r and (r.startswith(("os.", "shutil.")) and r.split(".")[-1] in (
                    "mkdir", "makedirs", "remove", "unlink", "rmdir", "removedirs", "rename", "renames", "replace", "move", "rmtree",
                    "copy", "copy2", "copyfile", "copytree", "truncate", "chmod", "symlink", "link")):
                effects.append((r, c))
            elif call_name(c) == "open" and isinstance(c.func, ast.Name):
                mode = c.args[1].value if len(c.args) > 1 and isinstance(c.args[1], ast.Constant) else "r"
                for k in c.keywords:
                    if k.arg == "mode" and isinstance(k.value, ast.Constant):
                        mode = k.value.value
                if any(ch in str(mode) for ch in "wax+"):
                    effects.append(("open(w)", c))
        extra = [(r, c) for r, c in effects if r not in allowed]
        res.add(rule, f"FileSystemCommands.{mname}|one-effect", not extra, m.where if not extra else f"{m.unit.rel}:{extra[0][1].lineno}",
                f"only {sorted(allowed) or 'no'} disk effect(s)" if not extra else
                f"FileSystemCommands.{mname} also calls {extra[0][0]}: the change layer undoes and rolls back a {mname} by the inverse primitive only, "
                "so what this extra call creates or removes stays behind after an undo or a rolled-back composite change (stray folders/files)",
                function=m.qualname, effects=[r for r, _ in effects])
    res.floor(rule, "file-system primitives", n, 5)
    # ... and the change layer itself reaches the disk through those commands only: what `_ResourceOperations` / a Change class does with
    # os / shutil directly (a destination folder created on the side, ...) has no inverse in undo and in the rollback of a composite
    mutators = ("mkdir", "makedirs", "remove", "unlink", "rmdir", "removedirs", "rename", "renames", "replace", "move", "rmtree",
                "copy", "copy2", "copyfile", "copytree", "truncate", "chmod", "symlink", "link")
    k = 0
    for f in sorted(idx.functions.values(), key=lambda f: f.qualname):
        if f.unit.modname != "rope.base.change":
            continue
        for c in calls_in(f.node):
            d = dotted(c.func)
            r = idx.resolve_dotted(f.unit.modname, d) if d else None
            if r and r.startswith(("os.", "shutil.")) and r.split(".")[-1] in mutators:
                k += 1
                res.fail(rule, f"{f.qualname.split('.', 3)[-1]}|disk-only-through-the-commands#{k}", f"{f.unit.rel}:{c.lineno}",
                         f"{f.qualname.split('.', 3)[-1]} calls {r} itself: undo and the rollback of a composite replay the inverse of the file-system COMMAND only, so what this call "
                         "creates or removes stays behind -- after undo the tree is not the tree from before the change", function=f.qualname)
    res.add(rule, "change-layer|disk-only-through-the-commands", k == 0, "rope/base/change.py:1",
            "the change layer calls no os / shutil mutator itself" if k == 0 else f"{k} direct os / shutil mutation(s) in the change layer")


def soa_observer_rule(ctx, res, rule: str) -> None:
    """Shared by C09/C10: the automatic static-object-analysis callback runs inside every file write, AFTER the bytes are
    on disk and before the change is recorded as done.  Anything it lets escape turns a performed write into a "failed"
    change that is neither rolled back nor recorded.  The analysis evaluates calls into other modules lazily and meets
    ModuleSyntaxError there; every analysing call of the callback lies in a construct that absorbs that class."""
    idx = ctx.idx
    f = idx.need_func("rope.base.pycore.perform_soa_on_changed_scopes")
    target = "rope.base.exceptions.ModuleSyntaxError"
    idx.need_class(target)
    sites = [c for c in calls_in(f.node) if call_name(c) in ("analyze_module", "analyze_object")]
    if not sites:
        raise AnalysisError("anchor=perform_soa_on_changed_scopes: analysing call not found")

    def absorbs(expr: ast.AST) -> bool:
        es = expr.elts if isinstance(expr, ast.Tuple) else [expr]
        for e in es:
            q = idx.resolve(f.unit.modname, e)
            if q and q in idx.mro(target):
                return True
            if isinstance(e, ast.Name) and e.id in ("Exception", "BaseException"):
                return True
        return False

    for k, c in enumerate(sites, 1):
        ok = False
        for x in walk_local(f.node):
            inside = lambda body: any(y is c for s_ in body for y in ast.walk(s_))
            if isinstance(x, ast.With) and inside(x.body):
                for it in x.items:
                    ce = it.context_expr
                    if isinstance(ce, ast.Call) and call_name(ce) == "suppress" and any(absorbs(a) for a in ce.args):
                        ok = True
            if isinstance(x, ast.Try) and inside(x.body):
                for h in x.handlers:
                    if h.type is None or absorbs(h.type):
                        ok = True
        res.add(rule, f"perform_soa_on_changed_scopes|absorbs-syntax-errors#{k}", ok, f"{f.unit.rel}:{c.lineno}",
                "the analysis runs inside a construct that absorbs ModuleSyntaxError" if ok else
                "perform_soa_on_changed_scopes calls the analysis outside any suppress/try that absorbs ModuleSyntaxError: the callback runs inside "
                "every file write after the bytes are on disk; a module it evaluates lazily (an unparsable module on the python path) makes the "
                "write 'fail' with the file already rewritten, not rolled back and not in the undo list", function=f.qualname)


def keyword_word_boundary_rule(ctx, res, rule: str) -> None:
    """Shared by C14/C20: where the word finder recognises a keyword by comparing a SLICE of the text with its spelling
    (`code[i - 3 : i + 1] == "from"`), the same decision tests the character before the slice (an identifier character
    there means the slice is the tail of a longer name such as `copied_from`)."""
    idx = ctx.idx
    unit = idx.need_unit("rope.base.worder")
    import keyword as _kw

    n = 0
    for f in sorted((f for f in idx.functions.values() if f.unit is unit), key=lambda f: f.qualname):
        for x in walk_local(f.node):
            bounded_call = isinstance(x, ast.Call) and isinstance(x.func, ast.Attribute) and x.func.attr in ("endswith", "startswith") and len(x.args) >= 2 \
                and isinstance(x.args[0], ast.Constant) and isinstance(x.args[0].value, str) and _kw.iskeyword(x.args[0].value)
            if bounded_call:
                # `code.endswith("from", 0, i + 1)` is the slice test `code[i - 3 : i + 1] == "from"` in another spelling
                sl, kw, lo = x, x.args[0], None
            else:
                if not (isinstance(x, ast.Compare) and len(x.ops) == 1 and isinstance(x.ops[0], (ast.Eq, ast.NotEq))):
                    continue
                sides = [x.left, x.comparators[0]]
                sl = next((e for e in sides if isinstance(e, ast.Subscript) and isinstance(e.slice, ast.Slice)), None)
                kw = next((e for e in sides if isinstance(e, ast.Constant) and isinstance(e.value, str) and _kw.iskeyword(e.value)), None)
                if sl is None or kw is None:
                    continue
                lo = sl.slice.lower
            n += 1
            ok = False
            # a slice that starts at a computed word start is a whole word already
            if lo is not None:
                if any(isinstance(c, ast.Call) and call_name(c) == "_find_word_start" for c in ast.walk(lo)):
                    ok = True
                if isinstance(lo, ast.Name):
                    for st in walk_local(f.node):
                        if isinstance(st, ast.Assign) and any(isinstance(t, ast.Name) and t.id == lo.id for t in st.targets) and \
                                any(isinstance(c, ast.Call) and call_name(c) == "_find_word_start" for c in ast.walk(st.value)):
                            ok = True
            for b in walk_local(f.node):
                if ok:
                    break
                if isinstance(b, ast.BoolOp) and any(v is x for v in b.values):
                    ok = any(isinstance(c, ast.Call) and call_name(c) in ("_is_id_char", "isalnum", "isidentifier", "_find_word_start")
                             for v in b.values if v is not x for c in ast.walk(v))
            if not ok:
                # the same decision written as nested ifs (or with the slice test first): every statement that runs only
                # when the slice compared equal is reached only through a test that looks at the character in front
                from ..cfg import CFG
                cfg = CFG(f.node)
                eq = bounded_call or isinstance(x.ops[0], ast.Eq)
                BOUNDARY = ("_is_id_char", "isalnum", "isidentifier", "_find_word_start")

                def conjuncts(e):
                    return [y for v in e.values for y in conjuncts(v)] if isinstance(e, ast.BoolOp) and isinstance(e.op, ast.And) else [e]

                tset = set()
                for st in walk_local(f.node):
                    if isinstance(st, (ast.If, ast.While)):
                        for cj in conjuncts(st.test):
                            if any(y is x for y in ast.walk(cj)):
                                continue
                            if any(isinstance(c, ast.Call) and call_name(c) in BOUNDARY for c in ast.walk(cj)):
                                inside = {id(y) for y in ast.walk(cj)}
                                tset |= {nd.id for nd in cfg.nodes if nd.kind == "test" and id(nd.ast) in inside}
                xn = next((nd for nd in cfg.nodes if nd.kind == "test" and nd.ast is x), None)
                if xn is not None and tset:
                    starts = [b for b, lab in cfg.succ[xn.id] if lab == ("true" if eq else "false")]
                    under = [nd for nd in cfg.nodes if nd.kind == "stmt" and nd.ast is not None
                             and any(t is x and pol == eq for t, pol in cfg.guards(nd.id))]
                    ok = bool(under) and bool(starts) and all(cfg.must_pass_through(starts[0], nd.id, lambda m: m.id in tset) for nd in under)
            res.add(rule, f"{f.qualname.split('.', 2)[-1]}|keyword-slice:{kw.value}", ok, f"{f.unit.rel}:{x.lineno}",
                    f"the text slice compared with '{kw.value}' is tested for a word boundary in front of it" if ok else
                    f"{f.name} takes the characters `{ast.unparse(sl)}` for the keyword '{kw.value}' without testing the character before them: a name "
                    f"that merely ends in '{kw.value}' (copied_{kw.value}.path) is treated as the keyword, the attribute is cut off from its object and "
                    "cannot be evaluated (go-to-definition raises, completion offers nothing)", function=f.qualname)
    res.floor(rule, "keyword recognised by a text slice in the word finder", n, 1)


def import_binding_rule(ctx, res, rule: str) -> None:
    """Shared by C03/C15: `import a.b.c` binds the name `a` (the first component); only `import a.b.c as x` binds x.
    Every `_Import` handler that enters names into a table (a scope's `names`, the extract collector's write sets) takes
    the first dotted component of alias.name for the no-alias case: `<name>.split(".")[0]` / `.partition(".")[0]`."""
    idx = ctx.idx
    n = 0
    for q, c in sorted(idx.classes.items()):
        if c.unit.modname not in ("rope.base.pyobjectsdef", "rope.refactor.extract"):
            continue
        h = c.methods.get("_Import")
        if h is None:
            continue
        binds = any(isinstance(x, ast.Assign) and any(isinstance(t, ast.Subscript) and is_self_attr(t.value) for t in x.targets) for x in walk_local(h.node)) or \
            any(is_self_attr(cc.func) and "written" in cc.func.attr for cc in calls_in(h.node))
        if not binds:
            continue
        n += 1
        first = any(isinstance(x, ast.Subscript) and isinstance(x.slice, ast.Constant) and x.slice.value == 0 and isinstance(x.value, ast.Call)
                    and isinstance(x.value.func, ast.Attribute) and x.value.func.attr in ("split", "partition")
                    and x.value.args and isinstance(x.value.args[0], ast.Constant) and x.value.args[0].value == "." for x in ast.walk(h.node))
        res.add(rule, f"{c.name}._Import|first-component", first, h.where,
                "without an alias the first dotted component of the module name is bound" if first else
                f"{c.name}._Import enters the whole dotted module name (`a.b.c`) instead of its first component (`a`): `import os.path` inside the "
                "analysed code binds a name that does not exist, and the real one (`os`) is not known as bound there", function=h.qualname)
    # a missing Import handler is reported by the coverage rules (R15.1 / R03.1); here only the classes are anchors
    idx.need_class("rope.base.pyobjectsdef._ScopeVisitor")
    idx.need_class("rope.refactor.extract._FunctionInformationCollector")
    res.analysed[f"{rule}_import_handlers"] = n


def pair_component(fn_node, expr, producers) -> Optional[int]:
    """Which component (0 / 1) of the pair returned by a call to one of `producers` does `expr` denote inside the function:
    `producer(...)[k]`, or a name bound by `a, b = producer(...)` / `a = producer(...)[k]`.  None when it is neither."""
    def direct(e):
        if isinstance(e, ast.Subscript) and isinstance(e.slice, ast.Constant) and e.slice.value in (0, 1, -1, -2) \
                and isinstance(e.value, ast.Call) and call_name(e.value) in producers:
            return e.slice.value % 2
        return None

    k = direct(expr)
    if k is not None:
        return k
    # `pair = producer(...)` ... `pair[k]`
    if isinstance(expr, ast.Subscript) and isinstance(expr.slice, ast.Constant) and expr.slice.value in (0, 1, -1, -2) and isinstance(expr.value, ast.Name):
        defs = [x.value for x in walk_local(fn_node) if isinstance(x, ast.Assign) and len(x.targets) == 1
                and isinstance(x.targets[0], ast.Name) and x.targets[0].id == expr.value.id]
        if len(defs) == 1 and isinstance(defs[0], ast.Call) and call_name(defs[0]) in producers:
            return expr.slice.value % 2
    if isinstance(expr, ast.Name):
        found = set()
        for x in walk_local(fn_node):
            if not isinstance(x, ast.Assign) or len(x.targets) != 1:
                continue
            t = x.targets[0]
            if isinstance(t, ast.Tuple) and len(t.elts) == 2 and isinstance(x.value, ast.Call) and call_name(x.value) in producers:
                for i, el in enumerate(t.elts):
                    if isinstance(el, ast.Name) and el.id == expr.id:
                        found.add(i)
            elif isinstance(t, ast.Name) and t.id == expr.id:
                d = direct(x.value)
                found.add(d if d is not None else -1)
        if len(found) == 1 and -1 not in found:
            return found.pop()
    return None


def inline_single_assignments(fn_node: ast.AST) -> List[ast.stmt]:
    """A copy of the function's body in which every local that is assigned exactly once, by a plain top-level
    `name = <expr>` of the body (not inside a loop / branch), and never re-bound, is replaced by its defining expression and
    the assignment dropped.  Used by shape-comparing rules so that `a = f(x); if a and ...` and `if f(x) and ...` look
    the same.  Purely syntactic: evaluation order of the substituted expressions is not preserved, so use it only for
    rules that compare WHAT is tested, not WHEN."""
    import copy

    body = copy.deepcopy([st for st in fn_node.body])
    counts: Dict[str, int] = {}
    for x in ast.walk(ast.Module(body=body, type_ignores=[])):
        if isinstance(x, ast.Name) and isinstance(x.ctx, (ast.Store, ast.Del)):
            counts[x.id] = counts.get(x.id, 0) + 1
    a = getattr(fn_node, "args", None)
    params = {p.arg for p in (a.posonlyargs + a.args + a.kwonlyargs)} if a is not None else set()
    env: Dict[str, ast.expr] = {}

    class Sub(ast.NodeTransformer):
        def visit_Name(self, n):
            if isinstance(n.ctx, ast.Load) and n.id in env:
                return copy.deepcopy(env[n.id])
            return n

    out: List[ast.stmt] = []
    for st in body:
        st = Sub().visit(st)
        if isinstance(st, ast.Assign) and len(st.targets) == 1 and isinstance(st.targets[0], ast.Name) \
                and counts.get(st.targets[0].id) == 1 and st.targets[0].id not in params:
            env[st.targets[0].id] = st.value
            continue
        out.append(st)
    return out


def with_private_helpers(idx: Index, f: FuncInfo, depth: int = 2) -> List[FuncInfo]:
    """f and the private helpers it delegates to: methods of the same class reached by `self._name(...)` and functions of
    the same module reached by `_name(...)`, transitively up to `depth`.  Rules that ask "does this function do X
    somewhere" use it so that extracting part of the function into a helper does not change the answer."""
    out, seen, frontier = [f], {f.qualname}, [f]
    for _ in range(depth):
        nxt = []
        for g in frontier:
            for c in calls_in(g.node):
                h = None
                if is_self_attr(c.func) and g.cls is not None:
                    h = idx.find_method(g.cls.qualname, c.func.attr)
                elif isinstance(c.func, ast.Name):
                    q = idx.resolve(g.unit.modname, c.func)
                    h = idx.functions.get(q) if q else None
                    if h is not None and h.unit is not g.unit:
                        h = None
                if h is not None and h.qualname not in seen and h.name.startswith("_") and not h.name.startswith("__"):
                    seen.add(h.qualname)
                    out.append(h)
                    nxt.append(h)
        frontier = nxt
    return out


def _tailify_void(stmts):
    """statement list of a value-less function whose bare `return`s are all in tail position of an if/else tree -> the same
    code without returns (what follows an `if ...: return` moves into its else branch); None when a return sits in a loop,
    try or with"""
    import copy
    out = []
    for i, b in enumerate(stmts):
        rest = stmts[i + 1:]
        if isinstance(b, ast.Return):
            return out or [ast.Pass()]
        if not any(isinstance(x, ast.Return) for x in ast.walk(b)):
            out.append(b)
            continue
        if not isinstance(b, ast.If):
            return None
        ends = lambda blk: bool(blk) and isinstance(blk[-1], (ast.Return, ast.Raise))
        body = _tailify_void(b.body + ([] if ends(b.body) else copy.deepcopy(rest)))
        orelse = _tailify_void((b.orelse or []) + ([] if (b.orelse and ends(b.orelse)) else copy.deepcopy(rest)))
        if body is None or orelse is None:
            return None
        nb = copy.copy(b)
        nb.body, nb.orelse = body, ([] if orelse == [ast.Pass()] or all(isinstance(x, ast.Pass) for x in orelse) else orelse)
        out.append(nb)
        return out
    return out or [ast.Pass()]


_INLINE_CACHE: Dict[tuple, ast.AST] = {}


def inlined(idx: Index, f: FuncInfo) -> ast.AST:
    """cached inline_private_calls(idx, f) (default options)"""
    # kept ON the index: a table keyed by id(idx) outlives the index, and the id of a collected index is handed out again --
    # a worker that analyses one scratch tree after another then reads the inlined copy of a function of the PREVIOUS tree
    cache = idx.__dict__.setdefault("_inline_cache", {})
    if f.qualname not in cache:
        cache[f.qualname] = _without_self_aliases(inline_private_calls(idx, f))
    return cache[f.qualname]


def _without_self_aliases(fn_node: ast.AST) -> ast.AST:
    """`resource = self.resource` ... `resource.read()`: a local that is bound ONCE in the function, to a plain attribute chain of `self`
    that the function itself never assigns, is another spelling of that attribute ("hoist a repeated expression into a local").  The
    rules that compare expressions (`self.resource` in do() with `self.resource` in undo()) read the function with such locals spelled
    out again and their bindings removed."""
    def chain_of_self(e) -> bool:
        while isinstance(e, ast.Attribute):
            e = e.value
        return isinstance(e, ast.Name) and e.id == "self"

    binds: Dict[str, List[ast.Assign]] = {}
    other_stores: Set[str] = set()
    stored_attrs: Set[str] = set()
    for x in ast.walk(fn_node):
        if isinstance(x, ast.Assign) and len(x.targets) == 1 and isinstance(x.targets[0], ast.Name):
            binds.setdefault(x.targets[0].id, []).append(x)
        elif isinstance(x, ast.Name) and isinstance(x.ctx, (ast.Store, ast.Del)):
            other_stores.add(x.id)
        if isinstance(x, ast.Attribute) and isinstance(x.ctx, (ast.Store, ast.Del)) and isinstance(x.value, ast.Name) and x.value.id == "self":
            stored_attrs.add(x.attr)
    plain_targets = {id(a.targets[0]) for lst in binds.values() for a in lst}
    restored = {x.id for x in ast.walk(fn_node) if isinstance(x, ast.Name) and isinstance(x.ctx, (ast.Store, ast.Del)) and id(x) not in plain_targets}
    params = {a.arg for a in getattr(fn_node, "args", ast.arguments(posonlyargs=[], args=[], kwonlyargs=[], kw_defaults=[], defaults=[])).args}
    alias = {}
    for name, lst in binds.items():
        if len(lst) != 1 or name in restored or name in params:
            continue
        v = lst[0].value
        # (only `self.<attr>` itself -- the reference to a collaborator; a field BEHIND it, `self.resource.newlines`, can be changed by any
        # call in between, and a local bound to it is a snapshot, not another spelling)
        if isinstance(v, ast.Attribute) and isinstance(v.value, ast.Name) and v.value.id == "self":
            first = v
            while isinstance(first.value, ast.Attribute):
                first = first.value
            if first.attr not in stored_attrs:
                alias[name] = lst[0]
    if not alias:
        return fn_node
    drop = {id(a) for a in alias.values()}

    class _Spell(ast.NodeTransformer):
        def visit_Name(self, n):
            if isinstance(n.ctx, ast.Load) and n.id in alias:
                return ast.copy_location(copy.deepcopy(alias[n.id].value), n)
            return n

        def generic_visit(self, node):
            for fld in ("body", "orelse", "finalbody"):
                blk = getattr(node, fld, None)
                if isinstance(blk, list) and any(id(b) in drop for b in blk):
                    kept = [b for b in blk if id(b) not in drop]
                    setattr(node, fld, kept or [ast.copy_location(ast.Pass(), blk[0])])
            return super().generic_visit(node)

    out = _Spell().visit(fn_node)
    ast.fix_missing_locations(out)
    return out


_REBOUND_COUNTER = [0]


def _rebound_params(env, h_node) -> list:
    """A helper that RE-BINDS one of its parameters (`while ...: scope = scope.parent`) works on its own local: substituting the argument
    expression for the reads alone would leave the stores behind.  Such a parameter gets a fresh local (`_inl_p_<k>_<name> = <argument>`),
    which the substitution then uses for reads and stores alike; returns the binding statements to put in front of the helper's body."""
    stored = {x.id for x in ast.walk(h_node) if isinstance(x, ast.Name) and isinstance(x.ctx, ast.Store)}
    pre = []
    for p_ in [k for k in env if k in stored]:
        _REBOUND_COUNTER[0] += 1
        fresh = f"_inl_p_{_REBOUND_COUNTER[0]}_{p_}"
        pre.append(ast.fix_missing_locations(ast.copy_location(ast.Assign(targets=[ast.Name(id=fresh, ctx=ast.Store())], value=copy.deepcopy(env[p_])), h_node)))
        env[p_] = ast.Name(id=fresh, ctx=ast.Load())
    return pre


def inline_private_calls(idx: Index, f: FuncInfo, depth: int = 2, keep=()) -> ast.AST:
    """A copy of f's FunctionDef in which every STATEMENT of the form `self._helper(args)` / `_helper(args)` (an expression
    statement; the helper is a private method of the same class or private function of the same module, takes plain
    positional/keyword parameters, and contains no `return <value>` / `yield`) is replaced by the helper's body with the
    parameters substituted by the argument expressions (helpers named in `keep` stay calls); likewise `x = helper(args)` /
    `return helper(args)` when the helper's only return is its last statement; and a call of a helper whose whole body is
    `return <expr>` is replaced by that expression wherever it stands (also in a test).  Path rules build their CFG on this copy, so that moving the
    tail of a function into a helper does not change what they see.  Anything else is left as it is."""
    import copy

    def helper_of(g_cls, modname, call):
        if is_self_attr(call.func) and g_cls is not None:
            h = idx.find_method(g_cls.qualname, call.func.attr)
            static = h is not None and any(d.split(".")[-1] == "staticmethod" for d in h.decorator_names())
            return h, not static
        if isinstance(call.func, ast.Name):
            q = idx.resolve(modname, call.func)
            h = idx.functions.get(q) if q else None
            return (h if h is not None and h.unit.modname == modname else None), False
        return None, False

    counter = [0]

    def hoist(st):
        """`return F(self._h(a))` -> `_inl_k = self._h(a)` ; `return F(_inl_k)`: private-helper calls nested in the expression
        of a simple statement are given a name, so that the statement-level cases below apply to them"""
        if not isinstance(st, (ast.Assign, ast.Return, ast.Expr, ast.AugAssign, ast.AnnAssign)) or getattr(st, "value", None) is None:
            return [st]
        pre = []

        class H(ast.NodeTransformer):
            def visit_Lambda(self, n):
                return n

            def visit_Call(self, n):
                self.generic_visit(n)
                if n is st.value:
                    return n
                h, _ = helper_of(f.cls, f.unit.modname, n)
                if h is not None and h.qualname != f.qualname and h.name.startswith("_") and not h.name.startswith("__") and h.name not in keep \
                        and any(isinstance(x, ast.Return) and x.value is not None for x in walk_local(h.node)):
                    counter[0] += 1
                    nm = f"_inl_{counter[0]}"
                    pre.append(ast.copy_location(ast.Assign(targets=[ast.Name(id=nm, ctx=ast.Store())], value=n), st))
                    return ast.copy_location(ast.Name(id=nm, ctx=ast.Load()), n)
                return n

        if any(isinstance(x, (ast.ListComp, ast.SetComp, ast.DictComp, ast.GeneratorExp, ast.IfExp, ast.BoolOp)) for x in ast.walk(st.value)):
            return [st]  # evaluated conditionally / repeatedly: leave in place
        st.value = H().visit(st.value)
        return pre + [st]

    def expand(stmts, level):
        out = []
        stmts = [y for x in stmts for y in (hoist(x) if level < depth else [x])]
        for st in stmts:
            for fld in ("body", "orelse", "finalbody"):
                v = getattr(st, fld, None)
                if isinstance(v, list) and v and isinstance(v[0], ast.stmt):
                    setattr(st, fld, expand(v, level))
            for hnd in getattr(st, "handlers", []) or []:
                hnd.body = expand(hnd.body, level)
            if level < depth and isinstance(st, ast.Expr) and isinstance(st.value, ast.Call):
                h, is_method = helper_of(f.cls, f.unit.modname, st.value)
                if h is not None and h.qualname != f.qualname and h.name.startswith("_") and not h.name.startswith("__") and h.name not in keep:
                    a = h.node.args
                    simple = not (a.vararg or a.kwarg or a.posonlyargs)
                    has_value_return = any((isinstance(x, ast.Return) and x.value is not None) or isinstance(x, (ast.Yield, ast.YieldFrom))
                                           for x in walk_local(h.node))
                    early_return = any(isinstance(x, ast.Return) for x in walk_local(h.node) if x is not h.node.body[-1])
                    if simple and not has_value_return and early_return:
                        # bare `return`s in tail position of an if/else tree: the code after an `if ...: return` moves into its else
                        tb = _tailify_void([b for b in h.node.body if not (isinstance(b, ast.Expr) and isinstance(b.value, ast.Constant))])
                        if tb is not None:
                            early_return = False
                            h_body_override = tb
                        else:
                            h_body_override = None
                    else:
                        h_body_override = None
                    if simple and not has_value_return and not early_return:
                        params = [p.arg for p in a.args][1 if is_method else 0:]
                        env = {}
                        ok = len(st.value.args) <= len(params)
                        for pnm, arg in zip(params, st.value.args):
                            env[pnm] = arg
                        for k in st.value.keywords:
                            if k.arg in params:
                                env[k.arg] = k.value
                            else:
                                ok = False
                        defaults = dict(zip(params[len(params) - len(a.defaults):], a.defaults))
                        for pnm in params:
                            if pnm not in env:
                                if pnm in defaults:
                                    env[pnm] = defaults[pnm]
                                else:
                                    ok = False
                        if ok:
                            out.extend(_rebound_params(env, h.node))
                            class Sub(ast.NodeTransformer):
                                def visit_Name(self, n):
                                    if n.id in env and isinstance(n.ctx, ast.Load):
                                        return copy.deepcopy(env[n.id])
                                    if n.id in env and isinstance(n.ctx, ast.Store) and isinstance(env[n.id], ast.Name) and env[n.id].id.startswith("_inl_p_"):
                                        return ast.copy_location(ast.Name(id=env[n.id].id, ctx=ast.Store()), n)  # a parameter the helper re-binds: its own local
                                    return n
                            body = [Sub().visit(copy.deepcopy(b)) for b in (h_body_override if h_body_override is not None else h.node.body)
                                    if not (isinstance(b, ast.Expr) and isinstance(b.value, ast.Constant)) and not isinstance(b, ast.Return)]
                            out.extend(expand(body, level + 1) or [ast.Pass()])
                            continue
            # `for T in self._gen(args): BODY` where the helper is a generator whose yields are statements `yield E` and that has no
            # `return`: the helper's body with every `yield E` replaced by `T = E; BODY` (BODY has no break/continue of this loop)
            if level < depth and isinstance(st, ast.For) and not st.orelse and isinstance(st.iter, ast.Call):
                h, is_method = helper_of(f.cls, f.unit.modname, st.iter)
                if h is not None and h.qualname != f.qualname and h.name.startswith("_") and not h.name.startswith("__") and h.name not in keep:
                    a = h.node.args
                    yields = [x for x in walk_local(h.node) if isinstance(x, (ast.Yield, ast.YieldFrom))]
                    ystmts = [x for x in walk_local(h.node) if isinstance(x, ast.Expr) and isinstance(x.value, ast.Yield) and x.value.value is not None]

                    def own_jumps(stmts):
                        for b in stmts:
                            if isinstance(b, (ast.Break, ast.Continue)):
                                return True
                            if isinstance(b, (ast.For, ast.While, ast.FunctionDef, ast.ClassDef)):
                                continue
                            for fld in ("body", "orelse", "finalbody"):
                                if own_jumps(getattr(b, fld, None) or []):
                                    return True
                            if any(own_jumps(hh.body) for hh in getattr(b, "handlers", []) or []):
                                return True
                        return False
                    if yields and len(yields) == len(ystmts) and not any(isinstance(x, ast.Return) for x in walk_local(h.node)) \
                            and not (a.vararg or a.kwarg or a.posonlyargs or a.kwonlyargs) and not own_jumps(st.body):
                        params = [p_.arg for p_ in a.args][1 if is_method else 0:]
                        env = dict(zip(params, st.iter.args))
                        ok = len(st.iter.args) <= len(params)
                        for k in st.iter.keywords:
                            if k.arg in params:
                                env[k.arg] = k.value
                            else:
                                ok = False
                        defaults = dict(zip(params[len(params) - len(a.defaults):], a.defaults))
                        for pnm in params:
                            if pnm not in env:
                                if pnm in defaults:
                                    env[pnm] = defaults[pnm]
                                else:
                                    ok = False
                        if ok:
                            loop_st = st

                            class SubG(ast.NodeTransformer):
                                def visit_Name(self, n):
                                    if n.id in env and isinstance(n.ctx, ast.Load):
                                        return copy.deepcopy(env[n.id])
                                    if n.id in env and isinstance(n.ctx, ast.Store) and isinstance(env[n.id], ast.Name) and env[n.id].id.startswith("_inl_p_"):
                                        return ast.copy_location(ast.Name(id=env[n.id].id, ctx=ast.Store()), n)  # a parameter the helper re-binds: its own local
                                    return n

                                def visit_Expr(self, n):
                                    if isinstance(n.value, ast.Yield):
                                        val = self.visit(n.value.value)
                                        bind = ast.copy_location(ast.Assign(targets=[copy.deepcopy(loop_st.target)], value=val), n)
                                        return [bind] + [copy.deepcopy(b) for b in loop_st.body]
                                    return self.generic_visit(n)
                            gb = [y for b in h.node.body if not (isinstance(b, ast.Expr) and isinstance(b.value, ast.Constant))
                                  for y in (lambda r: r if isinstance(r, list) else [r])(SubG().visit(copy.deepcopy(b)))]
                            out.extend(expand(gb, level + 1))
                            continue
            # `x = self._h(args)` / `return self._h(args)` where every return of the helper is in tail position of an
            # if/else tree (no return inside a loop / try / with): `return E` becomes `x = E`, the statements after an
            # `if ...: return` move into its else branch
            if level < depth and isinstance(st, (ast.Assign, ast.Return)) and isinstance(getattr(st, "value", None), ast.Call):
                h, is_method = helper_of(f.cls, f.unit.modname, st.value)
                if h is not None and h.qualname != f.qualname and h.name.startswith("_") and not h.name.startswith("__") and h.name not in keep:
                    a = h.node.args
                    rets = [x for x in walk_local(h.node) if isinstance(x, ast.Return)]
                    gen = any(isinstance(x, (ast.Yield, ast.YieldFrom)) for x in walk_local(h.node))
                    if len(rets) > 1 and not gen and not (a.vararg or a.kwarg or a.posonlyargs):
                        params = [p.arg for p in a.args][1 if is_method else 0:]
                        env = dict(zip(params, st.value.args))
                        ok = len(st.value.args) <= len(params)
                        for k in st.value.keywords:
                            if k.arg in params:
                                env[k.arg] = k.value
                            else:
                                ok = False
                        defaults = dict(zip(params[len(params) - len(a.defaults):], a.defaults))
                        for pnm in params:
                            if pnm not in env:
                                if pnm in defaults:
                                    env[pnm] = defaults[pnm]
                                else:
                                    ok = False

                        def make(value):
                            st3 = copy.copy(st)
                            st3.value = value if value is not None else ast.Constant(value=None)
                            return st3

                        def tailify(stmts):
                            """-> statements with every tail return replaced by make(E), or None when some return is not in tail position"""
                            out2 = []
                            for i, b in enumerate(stmts):
                                rest = stmts[i + 1:]
                                if isinstance(b, ast.Return):
                                    out2.append(make(b.value))
                                    return out2
                                has_ret = any(isinstance(x, ast.Return) for x in ast.walk(b))
                                if not has_ret:
                                    out2.append(b)
                                    continue
                                if not isinstance(b, ast.If):
                                    return None
                                # (the statements that follow are COPIED into each branch: a node shared by two lists would be
                                # expanded twice, and helper calls introduced by the first expansion re-expanded without bound)
                                body = tailify(b.body + ([] if _ends(b.body) else copy.deepcopy(rest)))
                                orelse = tailify((b.orelse or []) + ([] if (b.orelse and _ends(b.orelse)) else copy.deepcopy(rest)))
                                if body is None or orelse is None:
                                    return None
                                nb = copy.copy(b)
                                nb.body, nb.orelse = body, orelse
                                out2.append(nb)
                                return out2
                            out2.append(make(None))
                            return out2

                        def _ends(block):
                            return bool(block) and isinstance(block[-1], (ast.Return, ast.Raise))

                        if ok:
                            out.extend(_rebound_params(env, h.node))
                            class Sub3(ast.NodeTransformer):
                                def visit_Name(self, n):
                                    if n.id in env and isinstance(n.ctx, ast.Load):
                                        return copy.deepcopy(env[n.id])
                                    if n.id in env and isinstance(n.ctx, ast.Store) and isinstance(env[n.id], ast.Name) and env[n.id].id.startswith("_inl_p_"):
                                        return ast.copy_location(ast.Name(id=env[n.id].id, ctx=ast.Store()), n)  # a parameter the helper re-binds: its own local
                                    return n
                            hb = [Sub3().visit(copy.deepcopy(b)) for b in h.node.body
                                  if not (isinstance(b, ast.Expr) and isinstance(b.value, ast.Constant))]
                            t = tailify(hb)
                            if t is not None:
                                out.extend(expand(t, level + 1))
                                continue
            # `x = self._h(args)` / `return self._h(args)` where the helper's only return is its last statement
            if level < depth and isinstance(st, (ast.Assign, ast.Return, ast.AnnAssign)) and isinstance(getattr(st, "value", None), ast.Call):
                h, is_method = helper_of(f.cls, f.unit.modname, st.value)
                if h is not None and h.qualname != f.qualname and h.name.startswith("_") and not h.name.startswith("__") and h.name not in keep \
                        and h.node.body and isinstance(h.node.body[-1], ast.Return) and h.node.body[-1].value is not None:
                    a = h.node.args
                    rets = [x for x in walk_local(h.node) if isinstance(x, ast.Return)]
                    gen = any(isinstance(x, (ast.Yield, ast.YieldFrom)) for x in walk_local(h.node))
                    if len(rets) == 1 and not gen and not (a.vararg or a.kwarg or a.posonlyargs):
                        params = [p.arg for p in a.args][1 if is_method else 0:]
                        env = dict(zip(params, st.value.args))
                        ok = len(st.value.args) <= len(params)
                        for k in st.value.keywords:
                            if k.arg in params:
                                env[k.arg] = k.value
                            else:
                                ok = False
                        defaults = dict(zip(params[len(params) - len(a.defaults):], a.defaults))
                        for pnm in params:
                            if pnm not in env:
                                if pnm in defaults:
                                    env[pnm] = defaults[pnm]
                                else:
                                    ok = False
                        if ok:
                            out.extend(_rebound_params(env, h.node))
                            class Sub2(ast.NodeTransformer):
                                def visit_Name(self, n):
                                    if n.id in env and isinstance(n.ctx, ast.Load):
                                        return copy.deepcopy(env[n.id])
                                    if n.id in env and isinstance(n.ctx, ast.Store) and isinstance(env[n.id], ast.Name) and env[n.id].id.startswith("_inl_p_"):
                                        return ast.copy_location(ast.Name(id=env[n.id].id, ctx=ast.Store()), n)  # a parameter the helper re-binds: its own local
                                    return n
                            hb = [Sub2().visit(copy.deepcopy(b)) for b in h.node.body
                                  if not (isinstance(b, ast.Expr) and isinstance(b.value, ast.Constant))]
                            final = hb.pop()
                            st2 = copy.copy(st)
                            st2.value = final.value
                            out.extend(expand(hb, level + 1))
                            trivial = isinstance(st2, ast.Assign) and len(st2.targets) == 1 and isinstance(st2.targets[0], ast.Name) \
                                and isinstance(st2.value, ast.Name) and st2.value.id == st2.targets[0].id
                            if not trivial:  # `x = x` (the helper's local has the caller's name) carries no information
                                out.append(st2)
                            continue
            out.append(st)
        return out

    class ExprHelpers(ast.NodeTransformer):
        """`self._pred(a)` where the helper's whole body is `return <expr>`: replaced by <expr> with the parameters
        substituted -- anywhere, also in the test of an if/while (a pure one-line predicate or getter)"""
        def __init__(self, level):
            self.level = level

        def visit_Call(self, n):
            self.generic_visit(n)
            if self.level >= depth:
                return n
            h, is_method = helper_of(f.cls, f.unit.modname, n)
            if h is None or h.qualname == f.qualname or not h.name.startswith("_") or h.name.startswith("__") or h.name in keep:
                return n
            body = [b for b in h.node.body if not (isinstance(b, ast.Expr) and isinstance(b.value, ast.Constant))]
            a = h.node.args
            if len(body) != 1 or not isinstance(body[0], ast.Return) or body[0].value is None or a.vararg or a.kwarg or a.posonlyargs or a.kwonlyargs:
                return n
            if h.decorator_names() and not all(d.split(".")[-1] == "staticmethod" for d in h.decorator_names()):
                return n  # property / cached / wrapped: not a plain call
            params = [p.arg for p in a.args][1 if is_method else 0:]
            env = dict(zip(params, n.args))
            if len(n.args) > len(params):
                return n
            for k in n.keywords:
                if k.arg not in params:
                    return n
                env[k.arg] = k.value
            defaults = dict(zip(params[len(params) - len(a.defaults):], a.defaults))
            for pnm in params:
                if pnm not in env:
                    if pnm not in defaults:
                        return n
                    env[pnm] = defaults[pnm]

            class SubE(ast.NodeTransformer):
                def visit_Name(self, m):
                    if m.id in env and isinstance(m.ctx, ast.Load):
                        return copy.deepcopy(env[m.id])
                    return m
            new = SubE().visit(copy.deepcopy(body[0].value))
            new = ExprHelpers(self.level + 1).visit(new)
            return ast.copy_location(new, n)

    node = copy.deepcopy(f.node)
    node = ExprHelpers(0).visit(node)
    node.body = expand(node.body, 0)
    node = ExprHelpers(0).visit(node)  # one-line predicates inside the helper bodies that were just spliced in
    ast.fix_missing_locations(node)
    return node


def call_target_rule(ctx, res, rule: str) -> None:
    """Shared by C01/C02: which function runs when `f(...)` is written -- needed to bind a keyword argument to the
    parameter it names.  Calling a CLASS runs its `__init__`; calling an INSTANCE runs `__call__` (an instance has its
    class's `__init__` among its attributes too, so "has an __init__" does not identify a class).  Wherever
    `get_enclosing_function` (or a private helper it delegates to) answers with the `__init__` attribute of the called
    object, the answer is guarded by the test that the object is a class."""
    from ..cfg import CFG
    idx = ctx.idx
    f = idx.need_func("rope.base.evaluate.ScopeNameFinder.get_enclosing_function")
    n = 0
    for g in with_private_helpers(idx, f):
        cfg = CFG(g.node)
        ranges = {}
        for lp in walk_local(g.node):
            if isinstance(lp, ast.For) and isinstance(lp.target, ast.Name):
                k = idx.const_node(g.unit.modname, lp.iter, g.cls)
                elts = lp.iter.elts if isinstance(lp.iter, (ast.Tuple, ast.List)) else None
                if elts is None:
                    tv = idx.module_assigns.get(g.unit.modname, {}).get(lp.iter.id) if isinstance(lp.iter, ast.Name) else None
                    elts = tv.elts if isinstance(tv, (ast.Tuple, ast.List)) else None
                if elts is not None:
                    ranges[lp.target.id] = {e.value for e in elts if isinstance(e, ast.Constant)}
        for nd in cfg.nodes:
            if nd.kind != "stmt" or not isinstance(nd.ast, ast.Return) or nd.ast.value is None:
                continue
            keys = set()
            for sub in ast.walk(nd.ast.value):
                if isinstance(sub, ast.Subscript):
                    if isinstance(sub.slice, ast.Constant):
                        keys.add(sub.slice.value)
                    elif isinstance(sub.slice, ast.Name):
                        keys |= ranges.get(sub.slice.id, set())
            if "__init__" not in keys:
                continue
            n += 1
            gs = cfg.guards(nd.id)
            is_class = any(pol and isinstance(t, ast.Call) and call_name(t) == "isinstance" and len(t.args) == 2
                           and any(x in ast.unparse(t.args[1]) for x in ("AbstractClass", "PyClass")) for t, pol in gs)
            res.add(rule, f"{g.name}|__init__-only-for-classes#{n}", is_class, f"{g.unit.rel}:{nd.lineno}",
                    "`__init__` is taken for the function that a call runs only when the called object is a class" if is_class else
                    "the `__init__` attribute is taken for the function a call runs without testing that the called object is a CLASS: an instance has its "
                    "class's `__init__` too, so in `inst(kw=1)` the keyword is bound to __init__'s parameter instead of __call__'s -- renaming __call__'s "
                    "parameter leaves the keyword behind (TypeError at run time), renaming a like-named __init__ parameter rewrites it wrongly",
                    function=g.qualname)
    res.floor(rule, "places where __init__ is answered as the called function", n, 1)


def raw_text_rule(ctx, res, rule: str) -> None:
    """Shared by C06/C14: the word finder keeps two texts of equal length -- `raw`, the source, and `code`, the source with
    the contents of strings and comments blanked, which exists for SEARCHING.  Text that is handed back to a caller (a
    parameter list with its defaults, a primary, a word) is cut from `raw`; a slice of `code` may only be looked at
    (compared, tested), never returned: `def f(sep=", ")` read from `code` has the default `"  "`."""
    idx = ctx.idx
    cls = idx.need_class("rope.base.worder._RealFinder")
    n = 0

    def text_of_code(fn, e, depth=0) -> Optional[ast.AST]:
        """the `self.code[a:b]` slice that is the VALUE of e (possibly stripped), following locals and tuple elements"""
        if depth > 3:
            return None
        if isinstance(e, ast.Subscript) and isinstance(e.slice, ast.Slice) and is_self_attr(e.value, "code"):
            return e
        if isinstance(e, ast.Call) and isinstance(e.func, ast.Attribute) and e.func.attr in ("strip", "lstrip", "rstrip", "lower", "upper") and not e.args:
            return text_of_code(fn, e.func.value, depth + 1)
        if isinstance(e, (ast.Tuple, ast.List)):
            for el in e.elts:
                r = text_of_code(fn, el, depth + 1)
                if r is not None:
                    return r
        if isinstance(e, ast.Name):
            for x in walk_local(fn):
                if isinstance(x, ast.Assign) and any(isinstance(t, ast.Name) and t.id == e.id for t in x.targets):
                    r = text_of_code(fn, x.value, depth + 1)
                    if r is not None:
                        return r
        return None

    for mname, m in sorted(cls.methods.items()):
        k = 0
        for r in sorted((x for x in walk_local(m.node) if isinstance(x, ast.Return)), key=lambda x: x.lineno):
            if not (isinstance(r, ast.Return) and r.value is not None):
                continue
            if not any(isinstance(x, ast.Subscript) and isinstance(x.slice, ast.Slice) for x in ast.walk(r.value)) and not isinstance(r.value, (ast.Name, ast.Tuple)):
                continue
            bad = text_of_code(m.node, r.value)
            raw = any(isinstance(x, ast.Subscript) and isinstance(x.slice, ast.Slice) and is_self_attr(x.value, "raw") for x in ast.walk(r.value))
            if bad is None and not raw:
                continue
            n += 1
            k += 1
            res.add(rule, f"_RealFinder.{mname}|returned-text#{k}", bad is None, f"{m.unit.rel}:{r.lineno}",
                    "the text handed back is cut from the raw source" if bad is None else
                    f"{mname} hands back `{ast.unparse(bad)}`, a piece of the BLANKED text (string and comment contents replaced by spaces): a parameter "
                    "list read this way has `sep=\"  \"` where the source says `sep=\", \"`, and every rewritten signature / inlined default carries the "
                    "blanked literal -- calls that rely on the default are bound to a different value", function=m.qualname)
    res.floor(rule, "methods of the word finder that hand back source text", n, 6)


def exists_form(fn_node, pred) -> Optional[Tuple[str, bool]]:
    """For a boolean function written as a quantifier over one loop / comprehension, the pair (quantifier, polarity) of its
    truth condition in terms of `pred(x)`:  ("exists", True) = some x has pred, ("exists", False) = some x has NOT pred,
    ("forall", True/False) likewise.  `pred` recognises the predicate call in an expression (returns True for `P(x)`).
    Recognised shapes: `return any(...)` / `all(...)` / `not any(...)` / `not all(...)` over a generator of `P(x)` or
    `not P(x)`; and the loop `for x in xs: if [not] P(x): return <const>` ... `return <other const>`.  None otherwise."""
    def polarity(e) -> Optional[bool]:
        neg = False
        while isinstance(e, ast.UnaryOp) and isinstance(e.op, ast.Not):
            neg = not neg
            e = e.operand
        return (not neg) if pred(e) else None

    rets = [r for r in walk_local(fn_node) if isinstance(r, ast.Return)]
    # comprehension form
    if len(rets) == 1 and rets[0].value is not None:
        e, neg = rets[0].value, False
        while isinstance(e, ast.UnaryOp) and isinstance(e.op, ast.Not):
            neg = not neg
            e = e.operand
        if isinstance(e, ast.Call) and call_name(e) in ("any", "all") and len(e.args) == 1 and isinstance(e.args[0], (ast.GeneratorExp, ast.ListComp)) \
                and not e.args[0].generators[0].ifs:
            pol = polarity(e.args[0].elt)
            if pol is None:
                return None
            q = "exists" if call_name(e) == "any" else "forall"
            if neg:  # not any(P) = forall not P ; not all(P) = exists not P
                q, pol = ("forall" if q == "exists" else "exists"), not pol
            return q, pol
        return None
    # loop form: exactly one loop, an `if [not] P(x): return C1` inside it, and a final `return C2`
    loops = [l for l in walk_local(fn_node) if isinstance(l, ast.For)]
    if len(loops) != 1 or len(rets) != 2:
        return None
    inner = [r for r in rets if any(r is x for x in ast.walk(loops[0]))]
    outer = [r for r in rets if r not in inner]
    if len(inner) != 1 or len(outer) != 1 or not all(isinstance(r.value, ast.Constant) and isinstance(r.value.value, bool) for r in rets):
        return None
    from ..cfg import CFG
    cfg = CFG(fn_node)
    nd = next((n for n in cfg.nodes if n.ast is inner[0]), None)
    if nd is None:
        return None
    pols = [(polarity(t), p) for t, p in cfg.guards(nd.id) if polarity(t) is not None]
    if len(pols) != 1:
        return None
    pol = pols[0][0] == pols[0][1]  # the early return is taken when P(x) has this truth value
    if inner[0].value.value is True and outer[0].value.value is False:
        return "exists", pol
    if inner[0].value.value is False and outer[0].value.value is True:
        return "forall", not pol
    return None


def order_only_restore_rule(ctx, res, rule: str) -> None:
    """(shared C10 / C11) A selective undo/redo first moves the chosen changes to the top of its list and then processes
    them one by one; each processed change MOVES to the other list.  When a later one fails, the handler must undo the
    reordering -- of the elements that are still in the list.  It may therefore only REORDER the list (sort / reverse, in
    place, directly or through a helper that does nothing else to it): putting a snapshot back (slice assignment, clear +
    extend, rebinding) resurrects the changes that were already processed, which then sit in both lists."""
    idx = ctx.idx
    hist = idx.need_class("rope.base.history.History")
    aliases = property_aliases(hist)
    lists = list_attrs_of_init(hist)

    def canon0(e):
        if is_self_attr(e):
            a = aliases.get(e.attr, e.attr)
            return a if a in lists else None
        return None

    def only_reorders_param(h: FuncInfo, i: int) -> Optional[str]:
        """None when the helper does nothing to its i-th (caller-side) parameter but sort/reverse it; else a description"""
        ps = h.call_params()
        if i >= len(ps):
            return "argument not bound"
        p = ps[i]
        for st in walk_local(h.node):
            if not isinstance(st, ast.stmt):
                continue
            for e in mutated_exprs(st):
                if isinstance(e, ast.Name) and e.id == p:
                    c = st.value if isinstance(st, ast.Expr) and isinstance(st.value, ast.Call) else None
                    if not (c is not None and isinstance(c.func, ast.Attribute) and c.func.attr in ("sort", "reverse")):
                        return ast.unparse(st)[:60]
        return None

    n = 0
    for mname in ("undo", "redo"):
        m = hist.methods.get(mname)
        if m is None:
            continue
        # the handlers: of a try in the method itself, or of a try in a context manager of the class that the method
        # enters with one of the lists (`with self._keeping_order(self.undo_list): ...`)
        tries = [(t, canon0) for t in walk_local(m.node) if isinstance(t, ast.Try)]
        for w in [x for x in walk_local(m.node) if isinstance(x, ast.With)]:
            for it in w.items:
                c = it.context_expr
                if isinstance(c, ast.Call) and is_self_attr(c.func):
                    cm = idx.find_method(hist.qualname, c.func.attr)
                    if cm is not None and any(d.split(".")[-1] == "contextmanager" for d in cm.decorator_names()):
                        bound = {p: canon0(a) for p, a in zip(cm.call_params(), c.args) if canon0(a)}

                        def canon_cm(e, bound=bound):
                            return bound.get(e.id) if isinstance(e, ast.Name) else canon0(e)
                        tries += [(t, canon_cm) for t in walk_local(cm.node) if isinstance(t, ast.Try)]
        # ... or of a try in a private method of the class that the method hands one of the lists
        for c in calls_in(m.node):
            if is_self_attr(c.func) and c.func.attr.startswith("_"):
                hm = idx.find_method(hist.qualname, c.func.attr)
                if hm is not None and not any(d.split(".")[-1] == "contextmanager" for d in hm.decorator_names()):
                    bound = {p: canon0(a) for p, a in zip(hm.call_params(), c.args) if canon0(a)}
                    if bound:
                        def canon_h(e, bound=bound):
                            return bound.get(e.id) if isinstance(e, ast.Name) else canon0(e)
                        tries += [(t, canon_h) for t in walk_local(hm.node) if isinstance(t, ast.Try)]
        for t, canon in tries:
            for h in t.handlers:
                for st in [x for b in h.body for x in [b, *walk_local(b)] if isinstance(x, ast.stmt)]:
                    bad = None
                    touched = False
                    for e in mutated_exprs(st):
                        if canon(e):
                            touched = True
                            c = st.value if isinstance(st, ast.Expr) and isinstance(st.value, ast.Call) else None
                            if not (c is not None and isinstance(c.func, ast.Attribute) and c.func.attr in ("sort", "reverse") and canon(c.func.value)):
                                bad = ast.unparse(st)[:70]
                    if isinstance(st, ast.Assign) and any(canon(tg) for tg in st.targets):
                        touched, bad = True, ast.unparse(st)[:70]
                    if isinstance(st, ast.Expr) and isinstance(st.value, ast.Call) and is_self_attr(st.value.func):
                        hp = idx.find_method(hist.qualname, st.value.func.attr)
                        for i, a in enumerate(st.value.args):
                            if canon(a) and hp is not None:
                                touched = True
                                why = only_reorders_param(hp, i)
                                if why:
                                    bad = f"{hp.name}: {why}"
                    if isinstance(st, ast.Expr) and isinstance(st.value, ast.Call) and isinstance(st.value.func, ast.Name):
                        q = idx.resolve(m.unit.modname, st.value.func)
                        hp = idx.functions.get(q) if q else None
                        for i, a in enumerate(st.value.args):
                            if canon(a) and hp is not None:
                                touched = True
                                why = only_reorders_param(hp, i)
                                if why:
                                    bad = f"{hp.name}: {why}"
                    if not touched:
                        continue
                    n += 1
                    res.add(rule, f"History.{mname}|handler-reorders-only#{n}", bad is None, f"{m.unit.rel}:{st.lineno}",
                            "after a failed selective undo/redo the handler only reorders the list" if bad is None else
                            f"after a failed selective {mname} the handler does `{bad}` to the history list: it puts back more than an order -- the changes that "
                            f"were already processed before the failure have moved to the other list and are now in BOTH, so the next {mname}() re-applies one of them",
                            function=m.qualname)
    res.floor(rule, "history-list restorations in undo/redo handlers", n, 2)


def import_presence_rule(ctx, res, rule: str) -> None:
    """(shared C04 / C17 / C05) Whether a module already has an import is a question about its IMPORT STATEMENTS at module
    level -- the import machinery (`add_import` merges duplicates itself) answers it.  A line of text that reads
    `import os` proves nothing: it may be a function-local import, stand under `if TYPE_CHECKING:`, or be a docstring line.
    In every function that adds imports, no membership test against text lines (`.splitlines()`) decides which imports
    are added."""
    idx = ctx.idx
    n = 0
    for f in sorted(idx.functions.values(), key=lambda f: f.qualname):
        if not f.unit.modname.startswith("rope.refactor"):
            continue
        if not any(call_name(c) == "add_import" for c in calls_in(f.node)):
            continue
        n += 1
        line_sets = set()
        for x in walk_local(f.node):
            if isinstance(x, ast.Assign) and any(isinstance(c, ast.Call) and call_name(c) == "splitlines" for c in ast.walk(x.value)):
                line_sets |= {t.id for t in x.targets if isinstance(t, ast.Name)}
        bad = None
        for x in walk_local(f.node):
            if isinstance(x, ast.Compare) and len(x.ops) == 1 and isinstance(x.ops[0], (ast.In, ast.NotIn)):
                r = x.comparators[0]
                if (isinstance(r, ast.Name) and r.id in line_sets) or any(isinstance(c, ast.Call) and call_name(c) == "splitlines" for c in ast.walk(r)):
                    bad = x
        short = f.qualname.split(".", 2)[-1]
        res.add(rule, f"{short}|imports-not-decided-on-text", bad is None, f"{f.unit.rel}:{(bad or f.node).lineno}",
                "which imports are added is left to the import machinery" if bad is None else
                f"{short} decides with `{ast.unparse(bad)}` -- a membership test against the module's TEXT LINES -- whether an import is still needed: a line "
                "`import os` inside some function (or under `if TYPE_CHECKING:`, or in a docstring) makes it skip the module-level import, and the code "
                "that was just inserted raises NameError", function=f.qualname)
    res.floor(rule, "functions that add imports", n, 5)


# ---------------------------------------------------------------------------------------------------------------------
# byte columns (shared C01 / C02 / C06 / C08)

_COLS = ("col_offset", "end_col_offset")

# No function is exempt by name.  What is exempt is the START column of a node that the code has just tested to be a
# STATEMENT (`isinstance(x, ast.stmt)` / `isinstance(x, ast.If)` ... holds on every path to the read): a compound statement
# starts its line, only indentation precedes it; a simple statement is preceded by indentation or by `;`-separated
# statements of the same line, and rope uses such a column as an upper bound only.
BYTE_COLUMN_EXEMPT: Dict[str, str] = {}
_STMT_CLASSES = {c.__name__ for c in vars(ast).values() if isinstance(c, type) and issubclass(c, ast.stmt)}


def _statement_columns(f_node) -> Set[int]:
    """ids of the `x.col_offset` reads of a function where x is known to be a statement"""
    from ..cfg import CFG
    out: Set[int] = set()
    reads = [x for x in walk_local(f_node) if isinstance(x, ast.Attribute) and x.attr == "col_offset" and isinstance(x.ctx, ast.Load) and dotted(x.value)]
    if not reads:
        return out
    cfg = CFG(f_node)
    for x in reads:
        who = dotted(x.value)
        for nd in cfg.node_containing(x):
            for t, pol in cfg.guards(nd.id):
                if pol and isinstance(t, ast.Call) and call_name(t) == "isinstance" and len(t.args) == 2 and dotted(t.args[0]) == who:
                    classes = t.args[1].elts if isinstance(t.args[1], ast.Tuple) else [t.args[1]]
                    names = [(dotted(c) or "").split(".")[-1] for c in classes]
                    if names and all(nm in _STMT_CLASSES for nm in names):
                        out.add(id(x))
    return out


def _is_col_read(x: ast.AST) -> bool:
    if isinstance(x, ast.Attribute) and x.attr in _COLS and isinstance(x.ctx, ast.Load):
        return True
    return (isinstance(x, ast.Call) and call_name(x) == "getattr" and len(x.args) >= 2
            and isinstance(x.args[1], ast.Constant) and x.args[1].value in _COLS)


def _subst_single_locals(fn_node, expr, depth: int = 0):
    """a copy of expr in which every local of the function that is bound exactly once (plain assignment) is replaced by the
    expression it was bound to"""
    import copy
    binds: Dict[str, List[ast.expr]] = {}
    for x in walk_local(fn_node):
        if isinstance(x, ast.Assign):
            for t in x.targets:
                if isinstance(t, ast.Name):
                    binds.setdefault(t.id, []).append(x.value)
        elif isinstance(x, (ast.AugAssign, ast.For, ast.NamedExpr)) and isinstance(getattr(x, "target", None), ast.Name):
            binds.setdefault(x.target.id, []).extend([None, None])
    params = set(param_names(fn_node))

    class S(ast.NodeTransformer):
        def __init__(self):
            self.d = 0

        def visit_Name(self, n):
            v = binds.get(n.id)
            if isinstance(n.ctx, ast.Load) and n.id not in params and v and len(v) == 1 and v[0] is not None and self.d < 5:
                self.d += 1
                out = self.visit(copy.deepcopy(v[0]))
                self.d -= 1
                return out
            return n
    return S().visit(copy.deepcopy(expr))


def column_to_offset_anchor(ctx, res, rule: str) -> None:
    """`codeanalyze.column_to_offset(line, byte_column)` is the one place that turns a byte column into an index: it must
    measure the UTF-8 encoding of the line, and may return the number unchanged only for an ASCII line."""
    idx = ctx.idx
    f = idx.functions.get("rope.base.codeanalyze.column_to_offset")
    if f is None:
        # no converter at all: every use of a byte column is then judged by byte_column_rule on its own
        return
    ps = param_names(f.node)
    if len(ps) < 2:
        raise AnalysisError("column_to_offset: expected (line, byte_column)")
    line, col = ps[0], ps[1]
    from ..cfg import CFG
    cfg = CFG(f.node)
    bad = None
    n = 0
    for r in [x for x in walk_local(f.node) if isinstance(x, ast.Return)]:
        n += 1
        v = r.value
        if v is None:
            bad = bad or (r, "returns nothing")
            continue
        if isinstance(v, ast.Name) and v.id == col:
            node = cfg.node_of_stmt(r)
            ok = node is not None and any(pol and isinstance(t, ast.Call) and call_name(t) == "isascii" and dotted(t.func.value) == line
                                          for t, pol in cfg.guards(node.id))
            if not ok:
                bad = bad or (r, f"returns `{col}` unchanged although the line is not known to be ASCII")
            continue
        v = _subst_single_locals(f.node, v)  # `prefix = line.encode(...)[:byte_column]` ... `len(prefix.decode(...))` reads like the one-liner
        enc = [c for c in ast.walk(v) if isinstance(c, ast.Call) and call_name(c) == "encode" and isinstance(c.func, ast.Attribute) and dotted(c.func.value) == line]
        utf8 = all((not c.args and not c.keywords) or (c.args and isinstance(c.args[0], ast.Constant) and str(c.args[0].value).lower().replace("_", "-") in ("utf-8", "utf8")) for c in enc)
        cut = [s for s in ast.walk(v) if isinstance(s, ast.Subscript) and isinstance(s.slice, ast.Slice) and s.slice.lower is None
               and isinstance(s.slice.upper, ast.Name) and s.slice.upper.id == col and any(e is s.value for e in enc)]
        if not (enc and utf8 and cut and any(isinstance(c, ast.Call) and call_name(c) == "decode" for c in ast.walk(v))):
            bad = bad or (r, f"`{ast.unparse(v)}` does not count the characters of the first `{col}` UTF-8 bytes of the line")
    if n == 0:
        raise AnalysisError("column_to_offset: no return")
    res.add(rule, "column_to_offset|measures-utf8-bytes", bad is None, f"{f.unit.rel}:{(bad[0] if bad else f.node).lineno}",
            "column_to_offset cuts the UTF-8 encoding of the line at the byte column and counts the characters before it; the identity is taken only for an ASCII line"
            if bad is None else
            f"column_to_offset {bad[1]}: AST columns count UTF-8 bytes, so behind a non-ASCII character every position computed from one is shifted right",
            function=f.qualname)


def byte_column_rule(ctx, res, rule: str, modules, rest: bool = False) -> None:
    """The `col_offset` / `end_col_offset` of an AST node counts UTF-8 BYTES from the start of the node's own line.  rope's
    offsets are indices into a `str`.  The two agree only while the text before the column is ASCII; `"é"` earlier on the
    line shifts every later byte column.  Rule: a byte column read anywhere in `modules` (with rest=True: in every module
    that no other instance of this rule covers) flows only into
      * the `byte_column` argument of `codeanalyze.column_to_offset`, directly or as the argument of a function of the
        same module whose parameter obeys this rule again,
      * comparisons and `(lineno, col)` ordering pairs (bytes and characters order positions on one line alike).
    Arithmetic with it, slicing with it, returning or yielding it bare is reported.  Exempt is the START column of a node
    that was tested to be a statement on every path to the read (see _statement_columns): only indentation precedes it."""
    idx = ctx.idx
    covered = ("rope.refactor.functionutils", "rope.refactor.occurrences", "rope.refactor.patchedast")
    n = 0
    memo: Dict[Tuple[str, str], Optional[str]] = {}

    def local_callee(f: FuncInfo, call: ast.Call) -> Optional[FuncInfo]:
        fn = call.func
        if isinstance(fn, ast.Name):
            g = f
            while g is not None:
                c = idx.functions.get(f"{g.qualname}.<locals>.{fn.id}")
                if c is not None:
                    return c
                g = g.parent
            return idx.functions.get(f"{f.unit.modname}.{fn.id}")
        if isinstance(fn, ast.Attribute) and isinstance(fn.value, ast.Name) and fn.value.id in ("self", "cls"):
            g = f
            while g is not None and g.cls is None:
                g = g.parent
            if g is not None:
                return idx.find_method(g.cls.qualname, fn.attr)
        return None

    def flows(f: FuncInfo, src_pred, depth: int = 0) -> Optional[str]:
        """first misuse of the values selected by src_pred inside f, or None"""
        parents = {}
        for p in ast.walk(f.node):
            for c in ast.iter_child_nodes(p):
                parents[c] = p
        local = set(walk_local(f.node))
        tainted: Set[str] = set()
        work = [x for x in local if src_pred(x)]
        seen = set()
        while work:
            e = work.pop()
            if id(e) in seen:
                continue
            seen.add(id(e))
            p = parents.get(e)
            while isinstance(p, (ast.IfExp, ast.BoolOp)) or (isinstance(p, ast.Call) and call_name(p) in ("min", "max") and e in p.args):
                e, p = p, parents.get(p)
            where = f"{f.unit.rel}:{getattr(e, 'lineno', f.node.lineno)}"
            if isinstance(p, ast.keyword):
                kw, e, p = p, p, parents.get(p)
            else:
                kw = None
            if isinstance(p, (ast.Compare, ast.Assert)):
                continue
            if isinstance(p, ast.Tuple) and isinstance(parents.get(p), (ast.Return, ast.Compare)):
                continue
            if isinstance(p, ast.Assign) and len(p.targets) == 1 and isinstance(p.targets[0], ast.Name) and p.value is e:
                name = p.targets[0].id
                if name not in tainted:
                    tainted.add(name)
                    work.extend(x for x in local if isinstance(x, ast.Name) and x.id == name and isinstance(x.ctx, ast.Load))
                continue
            if isinstance(p, ast.Call) and (e in p.args or kw is not None):
                cn = call_name(p)
                if cn == "column_to_offset":
                    pos = p.args.index(e) if e in p.args else None
                    if pos == 1 or (kw is not None and kw.arg == "byte_column"):
                        continue
                    return f"{where}: `{ast.unparse(p)}` passes the byte column as the LINE argument"
                if cn in ("hasattr", "isinstance"):
                    continue
                g = local_callee(f, p)
                if g is not None and depth < 4:
                    ps = g.call_params()
                    if kw is not None:
                        pname = kw.arg
                    else:
                        i = p.args.index(e)
                        pname = ps[i] if i < len(ps) else None
                    if pname is not None:
                        key = (g.qualname, pname)
                        if key not in memo:
                            memo[key] = None  # recursion: assume fine
                            memo[key] = flows(g, lambda x: isinstance(x, ast.Name) and x.id == pname and isinstance(x.ctx, ast.Load), depth + 1)
                        if memo[key] is None:
                            continue
                        return f"{where}: passed to {g.name}(), where {memo[key]}"
                return f"{where}: `{ast.unparse(p)[:90]}` hands the byte column to a function that is not known to convert it"
            what = ast.unparse(p)[:90] if p is not None else "?"
            kind = {ast.BinOp: "does arithmetic with", ast.Subscript: "indexes with", ast.Slice: "slices with", ast.Return: "returns",
                    ast.Yield: "yields", ast.AugAssign: "adds"}.get(type(p), "uses")
            return f"{where}: `{what}` {kind} the byte column as if it were a character column"
        return None

    for f in sorted(idx.functions.values(), key=lambda f: f.qualname):
        mod = f.unit.modname
        if not (mod in modules or (rest and mod.startswith("rope.") and mod not in covered)):
            continue
        if mod == "rope.base.codeanalyze" and f.name == "column_to_offset":
            continue
        reads = [x for x in walk_local(f.node) if _is_col_read(x)]
        if not reads:
            continue
        n += len(reads)
        short = f.qualname.split(".", 2)[-1].replace(".<locals>", "")
        stmt_cols = _statement_columns(f.node)
        bad = flows(f, lambda x: _is_col_read(x) and id(x) not in stmt_cols)
        res.add(rule, f"{short}|byte-column-converted", bad is None, f.where if bad is None else bad.split(": ", 1)[0],
                f"{len(reads)} byte column(s) read; each is converted by column_to_offset, only compared, or the start column of a node tested to be a statement ({len(stmt_cols)})" if bad is None else
                f"{short}: {bad.split(': ', 1)[1]}.  `col_offset`/`end_col_offset` count UTF-8 bytes: with a non-ASCII character earlier on the line the "
                "position lies right of the real one by the byte surplus", function=f.qualname, columns=len(reads))
    res.floor(rule, "byte columns read", n, 1)


# ---------------------------------------------------------------------------------------------------------------------
# memo keys (shared C03 / C06 / C09 / C13 / C19)

# <function>|<parameter>: why the memo key may leave the parameter out
MEMO_KEY_EXEMPT = {
    "rope.base.pycore._ModuleCache.get_pymodule|force_errors":
        "decides only whether a syntax error is raised or recorded; a module that has errors is returned before the store, so every stored module is the same for both values",
}

_MEMO_SELFCHECK = '''
class M:
    def good(self, a, b):
        key = (a.x, b)
        if key not in self.memo:
            self.memo[key] = self._work(a, b)
        return self.memo[key]
    def _work(self, a, b):
        return a.x + b
    def bad(self, a, b):
        try:
            return self.memo2[a.x]
        except KeyError:
            r = self.memo2[a.x] = self._work2(a, b)
            return r
    def _work2(self, a, b):
        return a.y + b
'''


def _param_path(parents, n: ast.Name) -> Tuple[str, ast.AST]:
    """the longest attribute path read from the name: `p.a.b` for `p.a.b.c()`, and the node that spells it"""
    path, cur = n.id, n
    while True:
        p = parents.get(cur)
        if isinstance(p, ast.Attribute) and p.value is cur:
            q = parents.get(p)
            if isinstance(q, ast.Call) and q.func is p:
                return f"{path}.{p.attr}", q
            path, cur = f"{path}.{p.attr}", p
            continue
        return path, cur


def memo_functions(fn_node: ast.AST):
    """[(dict attribute, key expression (resolved), key nodes, store nodes)] for the memo idioms of a function: a value is
    read from `self.<d>[K]` (or `.get(K)`) and returned, and stored under the same K in the same function"""
    singles: Dict[str, List[ast.expr]] = {}
    for x in walk_local(fn_node):
        if isinstance(x, ast.Assign):
            for t in x.targets:
                if isinstance(t, ast.Name):
                    singles.setdefault(t.id, []).append(x.value)
        elif isinstance(x, (ast.AugAssign, ast.AnnAssign, ast.For, ast.NamedExpr)) and isinstance(getattr(x, "target", None), ast.Name):
            singles.setdefault(x.target.id, []).extend([None, None])
    params = set(param_names(fn_node))

    def resolve(k):
        if isinstance(k, ast.Name) and k.id not in params and len(singles.get(k.id, [])) == 1 and singles[k.id][0] is not None:
            return singles[k.id][0]
        return k

    def base(x):
        if isinstance(x, ast.Attribute) and isinstance(x.value, ast.Name) and x.value.id in ("self", "cls"):
            return x.attr
        return None

    stores, reads = {}, {}
    for x in walk_local(fn_node):
        if isinstance(x, ast.Subscript) and base(x.value) and not isinstance(x.slice, ast.Slice):
            (stores if isinstance(x.ctx, ast.Store) else reads).setdefault(base(x.value), []).append((x, x.slice))
        elif isinstance(x, ast.Call) and isinstance(x.func, ast.Attribute) and x.func.attr == "get" and base(x.func.value) and x.args:
            reads.setdefault(base(x.func.value), []).append((x, x.args[0]))
    returned_names = {r.value.id for r in walk_local(fn_node) if isinstance(r, ast.Return) and isinstance(r.value, ast.Name)}
    returned_nodes = {id(r.value) for r in walk_local(fn_node) if isinstance(r, ast.Return) and r.value is not None}
    out = []
    for d in sorted(set(stores) & set(reads)):
        for s, sk in stores[d]:
            kd = ast.dump(resolve(sk))
            same = [(r, rk) for r, rk in reads[d] if ast.dump(resolve(rk)) == kd]
            if not same:
                continue
            ret = any(id(r) in returned_nodes for r, _ in same)
            if not ret:
                for x in walk_local(fn_node):
                    if isinstance(x, ast.Assign) and any(x.value is r for r, _ in same) and any(isinstance(t, ast.Name) and t.id in returned_names for t in x.targets):
                        ret = True
            if not ret:
                continue
            keynodes = [sk] + [rk for _, rk in same]
            for k in list(keynodes):
                if resolve(k) is not k:
                    keynodes.append(resolve(k))
            for x in walk_local(fn_node):
                if isinstance(x, ast.Compare) and len(x.ops) == 1 and isinstance(x.ops[0], (ast.In, ast.NotIn)) and base(x.comparators[0]) == d:
                    keynodes.append(x.left)
                    if resolve(x.left) is not x.left:
                        keynodes.append(resolve(x.left))
            out.append((d, resolve(sk), keynodes, s))
            break
    return out


def _memo_verdict(idx: Optional[Index], f_node, resolve_callee, qualname: str):
    """[(dict attr, key text, [(param path, where it is read)])]: parameter paths the memoised computation reads that the
    key does not contain"""
    out = []
    for d, key, keynodes, store in memo_functions(f_node):
        parents = {}
        for p in ast.walk(f_node):
            for c in ast.iter_child_nodes(p):
                parents[c] = p
        inkey = set()
        for k in keynodes:
            inkey |= {id(x) for x in ast.walk(k)}
        a = f_node.args
        params = [p.arg for p in a.posonlyargs + a.args + a.kwonlyargs] + [p.arg for p in (a.vararg, a.kwarg) if p]
        params = [p for p in params if p not in ("self", "cls")]
        keypaths = set()
        elems = key.elts if isinstance(key, ast.Tuple) else [key]
        for e in elems:
            while isinstance(e, ast.Call) and call_name(e) in ("tuple", "str", "repr", "id", "frozenset", "sorted") and len(e.args) == 1:
                e = e.args[0]
            dn = dotted(e)
            if dn is not None:
                keypaths.add(dn)
            elif isinstance(e, ast.Call) and isinstance(e.func, ast.Attribute) and dotted(e.func) and not e.args:
                keypaths.add(dotted(e.func))

        def covered(path: str) -> bool:
            return any(path == k or path.startswith(k + ".") for k in keypaths)

        missing: List[Tuple[str, str]] = []

        from ..cfg import CFG
        cfg = CFG(f_node)
        store_ids = {n.id for n in cfg.node_containing(store)}
        before = cfg.reachable(cfg.entry.id, avoid_nodes=store_ids)

        def miss_only(x) -> bool:
            """every complete run through the statement of x also passes the store: the statement belongs to the
            computation of the remembered value and is skipped when the value is found"""
            for nd in cfg.node_containing(x):
                if nd.id in store_ids:
                    continue
                if nd.id in before and cfg.exit.id in cfg.reachable(nd.id, avoid_nodes=store_ids):
                    return False
            return True

        # what the function reads again AFTER it found the remembered value is honoured on that path as well
        # (a registry that updates the found entry from the argument is not a memo of that argument)
        after_hit: Set[int] = set()
        for k in keynodes:
            for nd in cfg.node_containing(k):
                if nd.id not in store_ids:
                    after_hit |= cfg.reachable(nd.id, avoid_nodes=store_ids) - {nd.id}
        hit_paths: Set[str] = set()
        for x in walk_local(f_node):
            if isinstance(x, ast.Name) and isinstance(x.ctx, ast.Load) and x.id in params and id(x) not in inkey:
                nds = cfg.node_containing(x)
                if nds and all(nd.id in after_hit and nd.id not in store_ids for nd in nds) and not miss_only(x):
                    hit_paths.add(_param_path(parents, x)[0])

        def uses(node, names: Dict[str, str], depth: int, via: str):
            """names: local name -> path in terms of the memo function's parameters"""
            par = parents if node is f_node else None
            if par is None:
                par = {}
                for p in ast.walk(node):
                    for c in ast.iter_child_nodes(p):
                        par[c] = p
            for x in walk_local(node):
                if not (isinstance(x, ast.Name) and isinstance(x.ctx, ast.Load) and x.id in names) or id(x) in inkey:
                    continue
                path, top = _param_path(par, x)
                path = names[x.id] + path[len(x.id):]
                up = par.get(top)
                if isinstance(up, ast.Call) and call_name(up) in ("isinstance", "hasattr") and up.args and up.args[0] is top:
                    continue
                if isinstance(up, ast.Compare) and all(isinstance(o, (ast.Is, ast.IsNot)) for o in up.ops):
                    continue
                if covered(path) or (node is f_node and not miss_only(x)) or any(path == h or path.startswith(h + '.') for h in hit_paths):
                    continue
                if top is x and isinstance(up, ast.Call) and x in up.args and depth < 3:
                    g = resolve_callee(up)
                    if g is not None:
                        gnode, gparams = g
                        i = up.args.index(x)
                        if i < len(gparams):
                            uses(gnode, {gparams[i]: path}, depth + 1, f"{via}{call_name(up)}() -> ")
                            continue
                if isinstance(up, ast.keyword) and top is x and depth < 3:
                    call = par.get(up)
                    g = resolve_callee(call) if isinstance(call, ast.Call) else None
                    if g is not None and up.arg in g[1]:
                        uses(g[0], {up.arg: path}, depth + 1, f"{via}{call_name(call)}() -> ")
                        continue
                missing.append((path, f"{via}`{ast.unparse(up if isinstance(up, (ast.Call, ast.Compare, ast.BinOp)) else top)[:70]}` line {x.lineno}"))

        uses(f_node, {p: p for p in params}, 0, "")
        out.append((d, ast.unparse(key), missing, store))
    return out


def memo_key_rule(ctx, res, rule: str, modules, rest: bool = False) -> None:
    """A function that remembers its answer in `self.<d>[K]` and returns the remembered one the next time promises that the
    answer depends on nothing but K.  For every such function of `modules`: each parameter (or attribute path of a
    parameter) that the computation reads -- followed into the methods of the same class and functions of the same module
    it is handed to -- is part of the key, whole or as exactly that path.  A key that names a node by its identifier, a
    call by its text, or a resource by its path while the computation looks at more than that returns one caller's
    answer to another.  Type tests and `is None` tests are not counted as reads; exemptions are per function and
    parameter in MEMO_KEY_EXEMPT."""
    idx = ctx.idx
    covered_mods = ("rope.refactor.similarfinder", "rope.refactor.restructure", "rope.refactor.wildcards", "rope.refactor.extract",
                    "rope.refactor.change_signature", "rope.refactor.functionutils", "rope.base.resources", "rope.base.project",
                    "rope.base.fscommands", "rope.base.libutils")

    # the detector itself, on a fixed positive and negative example
    tree = ast.parse(_MEMO_SELFCHECK).body[0]
    meths = {m.name: m for m in tree.body}

    def rc(call):
        if isinstance(call.func, ast.Attribute) and isinstance(call.func.value, ast.Name) and call.func.value.id == "self" and call.func.attr in meths:
            return meths[call.func.attr], param_names(meths[call.func.attr])[1:]
        return None
    good = _memo_verdict(None, meths["good"], rc, "M.good")
    badv = _memo_verdict(None, meths["bad"], rc, "M.bad")
    if not (len(good) == 1 and not good[0][2] and len(badv) == 1 and {p for p, _ in badv[0][2]} == {"a.y", "b"}):
        raise AnalysisError(f"memo-key detector self-check failed: {good} {badv}")

    n = 0
    for f in sorted(idx.functions.values(), key=lambda f: f.qualname):
        mod = f.unit.modname
        if not (mod in modules or (rest and mod.startswith("rope.") and mod not in covered_mods)):
            continue
        if isinstance(f.node, ast.Lambda):
            continue

        def resolve_callee(call, f=f):
            fn = call.func
            g = None
            if isinstance(fn, ast.Attribute) and isinstance(fn.value, ast.Name) and fn.value.id in ("self", "cls"):
                h = f
                while h is not None and h.cls is None:
                    h = h.parent
                if h is not None:
                    g = idx.find_method(h.cls.qualname, fn.attr)
            elif isinstance(fn, ast.Name):
                g = idx.functions.get(f"{f.qualname}.<locals>.{fn.id}") or idx.functions.get(f"{f.unit.modname}.{fn.id}")
            if g is None or isinstance(g.node, ast.Lambda):
                return None
            return g.node, g.call_params()

        for d, key, missing, store in _memo_verdict(idx, f.node, resolve_callee, f.qualname):
            n += 1
            short = f.qualname.split(".", 2)[-1].replace(".<locals>", "")
            missing = [(p, w) for p, w in missing if f"{f.qualname}|{p.split('.')[0]}" not in MEMO_KEY_EXEMPT]
            ok = not missing
            seenp = []
            for p, w in missing:
                if p not in [q for q, _ in seenp]:
                    seenp.append((p, w))
            res.add(rule, f"{short}|memo-key-complete:{d}", ok, f"{f.unit.rel}:{store.lineno}",
                    f"self.{d} is keyed by `{key}`, which contains everything of the parameters the computation reads" if ok else
                    f"{short} remembers its answer in self.{d} under the key `{key}`, but the computation also reads "
                    + ", ".join(f"`{p}` ({w})" for p, w in seenp[:3]) +
                    ": two calls that agree on the key and differ there get the answer computed for the first one",
                    function=f.qualname, key=key)
    res.analysed[f"memo functions:{rule}"] = n


# ---------------------------------------------------------------------------------------------------------------------
# identifier characters (shared C01 / C02 / C03 / C14 / C20)

_IDCHAR_SELFCHECK = '''
def hand_rolled(c):
    return c.isalnum() or c == "_"
def hand_rolled2(s, i):
    while i >= 0 and (s[i].isalnum() or s[i] in "_"):
        i -= 1
def hand_rolled3(prev):
    if not (prev.isalnum() or prev == "_"):
        return False
def fine(c, d):
    return c.isalnum() or d == "_"
def codec(c):
    return c.isalnum() or c in "-_."
'''


def _hand_rolled_id_tests(tree: ast.AST) -> List[ast.BoolOp]:
    """`X.isalnum() or X == "_"` (also `X in "_"`), for one and the same X: a home-made "is an identifier character" """
    out = []
    for x in ast.walk(tree):
        if not (isinstance(x, ast.BoolOp) and isinstance(x.op, ast.Or)):
            continue
        alnum = {ast.dump(v.func.value) for v in x.values
                 if isinstance(v, ast.Call) and isinstance(v.func, ast.Attribute) and v.func.attr == "isalnum" and not v.args}
        under = {ast.dump(v.left) for v in x.values
                 if isinstance(v, ast.Compare) and len(v.ops) == 1 and isinstance(v.ops[0], (ast.Eq, ast.In))
                 and isinstance(v.comparators[0], ast.Constant) and v.comparators[0].value in ("_", b"_")}
        has_ident = any(isinstance(c, ast.Call) and call_name(c) in ("isidentifier", "is_identifier_char") for v in x.values for c in ast.walk(v))
        if alnum & under and not has_ident:
            out.append(x)
    return out


def identifier_char_rule(ctx, res, rule: str, modules, rest: bool = False, occurrences: bool = False) -> None:
    """Which characters belong to an identifier is the tokenizer's decision: XID_Start then XID_Continue (PEP 3131), which
    besides letters, digits and `_` contains the combining marks and connectors -- every Devanagari vowel sign, Hebrew point,
    Thai vowel; `"देव".isidentifier()` holds, `"े".isalnum()` does not.  rope asks `worder.is_identifier_char`.
      (a) that function accepts a non-ASCII character exactly when the interpreter accepts it after an identifier start
          (an `isidentifier()` call on start + char is one of its alternatives);
      (b) no function of `modules` tests `X.isalnum() or X == "_"` on its own (detector checked on a fixed example at every run);
      (c) [occurrences] the candidate pattern of the textual finder does not put `\\b` next to the name (`\\b` needs a word
          character on one side: a name ending in a mark is never found, and a mark after the name is taken for a boundary),
          and every offset yielded for the bare-word alternative passed a whole-word test that reaches is_identifier_char."""
    idx = ctx.idx
    # detector self-check
    t = ast.parse(_IDCHAR_SELFCHECK)
    hits = {f.name: len(_hand_rolled_id_tests(f)) for f in t.body}
    if hits != {"hand_rolled": 1, "hand_rolled2": 1, "hand_rolled3": 1, "fine": 0, "codec": 0}:
        raise AnalysisError(f"identifier-character detector self-check failed: {hits}")
    f = idx.functions.get("rope.base.worder.is_identifier_char")
    if f is not None:
        ps = param_names(f.node)
        # `(<identifier start> + char).isidentifier()` decides for some characters: the call stands in a returned value or in
        # a test of the function (a boolean chain or guard clauses -- either way it is an alternative of the answer)
        good = None
        deciding = [x.value for x in walk_local(f.node) if isinstance(x, ast.Return) and x.value is not None] + \
                   [x.test for x in walk_local(f.node) if isinstance(x, (ast.If, ast.IfExp))]
        for e in deciding:
            for c in ast.walk(e):
                if isinstance(c, ast.Call) and call_name(c) == "isidentifier" and isinstance(c.func, ast.Attribute) and isinstance(c.func.value, ast.BinOp) \
                        and isinstance(c.func.value.op, ast.Add) and isinstance(c.func.value.left, ast.Constant) and isinstance(c.func.value.left.value, str) \
                        and c.func.value.left.value.isidentifier() and isinstance(c.func.value.right, ast.Name) and ps and c.func.value.right.id == ps[0]:
                    good = c
        res.add(rule, "is_identifier_char|asks-the-interpreter", good is not None, f.where,
                "a non-ASCII character is accepted when `start + char` is an identifier for the interpreter" if good is not None else
                "worder.is_identifier_char does not ask `(<start> + char).isidentifier()` as an alternative of its answer: combining marks and connectors "
                "(XID_Continue beyond isalnum, e.g. the vowel signs of देव) are not identifier characters for rope, so the word at such a name is cut and "
                "a shorter name matches inside it", function=f.qualname)
    n = 0
    for g in sorted(idx.functions.values(), key=lambda g: g.qualname):
        mod = g.unit.modname
        covered = ("rope.base.worder", "rope.refactor.occurrences", "rope.refactor.extract", "rope.contrib.codeassist")
        if not (mod in modules or (rest and mod.startswith("rope.") and mod not in covered)) or g.parent is not None:
            continue
        n += 1
        if g.qualname == "rope.base.worder.is_identifier_char":
            continue
        for b in _hand_rolled_id_tests(g.node):
            short = g.qualname.split(".", 2)[-1]
            res.add(rule, f"{short}|no-home-made-identifier-test", False, f"{g.unit.rel}:{b.lineno}",
                    f"{short} decides with `{ast.unparse(b)[:80]}` whether a character belongs to an identifier: combining marks and connectors (valid after the "
                    "first character, PEP 3131: दे, שָׁ) are not `isalnum()`, so the word is cut at the mark / a shorter name is found inside a longer one and "
                    "rewritten; ask worder.is_identifier_char", function=g.qualname)
    # (d) the two ends of the word at an offset (`get_word_at` cuts raw[<start>:<end> + 1]) are found by asking is_identifier_char
    wf = idx.classes.get("rope.base.worder._RealFinder")
    gw = wf.methods.get("get_word_at") if wf is not None else None
    if gw is not None and "rope.base.worder" in modules:
        ends = []
        for x in walk_local(gw.node):
            if isinstance(x, ast.Subscript) and isinstance(x.slice, ast.Slice):
                for b in (x.slice.lower, x.slice.upper):
                    # (`word_start = self._find_word_start(o)` ... `raw[word_start : word_end + 1]`: locals bound once are read through)
                    def outermost(e):
                        """the finder's methods called in e, not those called only to compute an argument of another one"""
                        if isinstance(e, ast.Call) and is_self_attr(e.func) and e.func.attr in wf.methods:
                            yield e
                            return
                        for ch in ast.iter_child_nodes(e):
                            yield from outermost(ch)
                    for c in outermost(_subst_single_locals(gw.node, b)) if b is not None else ():
                        if wf.methods[c.func.attr] not in ends:
                            ends.append(wf.methods[c.func.attr])
        if len(ends) < 2:
            raise AnalysisError(f"anchor=_RealFinder.get_word_at: the two ends of the word are not found by two methods of the finder ({[e.name for e in ends]})")
        for e in ends:
            fam = with_private_helpers(idx, e, depth=3)
            asks = any(call_name(c) == "is_identifier_char" for h in fam for c in calls_in(h.node))
            res.add(rule, f"_RealFinder.{e.name}|word-end-found-by-is_identifier_char", asks, e.where,
                    "the end of the word is found by asking worder.is_identifier_char character by character" if asks else
                    f"_RealFinder.{e.name} finds the end of the word at an offset without asking worder.is_identifier_char (a regular expression's \\w, isalnum, ...): "
                    "\\w is letters, digits and `_` -- the combining marks and connectors an identifier may contain (दे, a‿b) are not in it, the word is cut at the mark and "
                    "get_word_at / get_primary_at / get_name_at answer with a prefix of the name", function=e.qualname)
    res.analysed[f"functions scanned for home-made identifier tests:{rule}"] = n
    if n == 0:
        raise AnalysisError(f"{rule}: no function of {modules} scanned")
    res.add(rule, "home-made-identifier-tests|none-in-scope", True, "rope/", f"{n} functions scanned")
    if occurrences:
        TF = "rope.refactor.occurrences._TextualFinder"
        from .. import fold
        folder = fold.get(ctx)
        folder.init_env[TF] = {"name": "NAME", "docs": False}
        try:
            try:
                pat = folder.call_function(TF + "._get_occurrence_pattern", ["NAME"])
            except fold.Unfoldable:
                tfc = idx.need_class(TF)
                pat = folder.eval(tfc.unit.modname, ast.parse("self.pattern", mode="eval").body, {}, cls=tfc)
        except fold.Unfoldable as e:
            raise AnalysisError(f"occurrence pattern not foldable: {e}")
        import re as _re
        b_adjacent = bool(_re.search(r"\\bNAME|NAME\\b", pat))
        res.add(rule, "_TextualFinder.pattern|no-\\b-next-to-the-name", not b_adjacent, "rope/refactor/occurrences.py",
                "the name is delimited by look-arounds, not by \\b" if not b_adjacent else
                "the candidate pattern delimits the name with \\b: a name that ends in a combining mark (दे) has no word character at its end, \\b never "
                "matches there and no occurrence of the name is found at all; and `द\\b` matches in front of the mark of देव")
        rs = idx.need_func(TF + "._re_search")
        from ..cfg import CFG
        cfg = CFG(rs.node)
        tfc = idx.need_class(TF)

        def reaches(nm: str, seen=None) -> bool:
            """a method of the finder, or a function of its module, that (transitively) asks is_identifier_char"""
            seen = seen if seen is not None else set()
            m = tfc.methods.get(nm) or idx.functions.get(f"{tfc.unit.modname}.{nm}")
            if nm in seen or m is None:
                return False
            seen.add(nm)
            for c in calls_in(m.node):
                if call_name(c) == "is_identifier_char":
                    return True
                if (is_self_attr(c.func) or isinstance(c.func, ast.Name)) and reaches(call_name(c), seen):
                    return True
            return False
        k = 0
        for nd in cfg.nodes:
            if nd.kind != "stmt" or not any(isinstance(x, ast.Yield) for x in ast.walk(nd.ast)):
                continue
            gs = cfg.guards(nd.id)
            if not any(pol and any(const_str_(x) == "occurrence" for x in ast.walk(t)) for t, pol in gs):
                continue
            k += 1
            ok = any(pol and isinstance(c, ast.Call) and is_self_attr(c.func) and reaches(c.func.attr) for t, pol in gs for c in ast.walk(t))
            res.add(rule, f"_TextualFinder._re_search|bare-word-is-whole-word#{k}", ok, f"{rs.unit.rel}:{nd.lineno}",
                    "a bare-word match is yielded only after a whole-word test that asks is_identifier_char" if ok else
                    "_re_search yields the offset of a bare-word match without a whole-word test that asks is_identifier_char: the regex knows only \\w, for "
                    "which a combining mark is no word character, so `द` is found at the start of `देव` and rewritten", function=rs.qualname)
        # (no yield under the bare-word group at all is R02.2's finding, not this rule's)
        res.analysed[f"bare-word yields of the textual finder:{rule}"] = k


def const_str_(x) -> Optional[str]:
    return x.value if isinstance(x, ast.Constant) and isinstance(x.value, str) else None


def callee_names(fn_node: ast.AST, call: ast.Call) -> List[Tuple[str, Optional[ast.expr], Optional[bool]]]:
    """What a call calls, by name: [(name, condition, polarity)].  For `f(...)` / `x.f(...)` one entry without condition.
    For a call of a LOCAL that was bound once to a callable chosen by a conditional expression --
    `get = p.get_folder if flag else p.get_file` ... `get(path)` -- one entry per alternative with the test and the side it
    stands on; bound once to a plain attribute / name: that name.  (The local's own name says nothing about what is called.)"""
    f = call.func
    if isinstance(f, ast.Name):
        binds = [x.value for x in walk_local(fn_node) if isinstance(x, ast.Assign) and len(x.targets) == 1 and isinstance(x.targets[0], ast.Name) and x.targets[0].id == f.id]
        if len(binds) == 1:
            v = binds[0]
            nm = lambda e: e.attr if isinstance(e, ast.Attribute) else e.id if isinstance(e, ast.Name) else None
            if isinstance(v, ast.IfExp) and nm(v.body) and nm(v.orelse):
                return [(nm(v.body), v.test, True), (nm(v.orelse), v.test, False)]
            if nm(v):
                return [(nm(v), None, None)]
    return [(call_name(call), None, None)]


# ---------------------------------------------------------------------------------------------------------------------
# (line, column) pairs (shared C01 / C02 / C06 / C08)

def position_pair_rule(ctx, res, rule: str, modules) -> None:
    """An AST node has two positions: (lineno, col_offset) where it starts and (end_lineno, end_col_offset) where it ends.  A
    column means nothing without ITS line: `end_col_offset` counts from the start of line `end_lineno`.  (a) wherever a
    call is handed a line number attribute and a column attribute, both belong to the same node and to the same end of it;
    (b) wherever a column is converted with `column_to_offset(<line text>, <column>)` and the line text can be traced to
    `get_line(<node>.<lineno attribute>)`, that attribute is the column's own.  For a node written on one line either mix
    gives the right answer, which is why tests do not notice."""
    idx = ctx.idx
    START, END = ("lineno", "col_offset"), ("end_lineno", "end_col_offset")
    n = 0

    def kind(e):
        """(owner text, 'start'|'end', 'line'|'col') for X.lineno / X.end_col_offset ..."""
        if isinstance(e, ast.Attribute) and e.attr in START + END and dotted(e.value):
            return dotted(e.value), ("start" if e.attr in START else "end"), ("line" if "lineno" in e.attr else "col")
        return None

    for f in sorted(idx.functions.values(), key=lambda f: f.qualname):
        if f.unit.modname not in modules or isinstance(f.node, ast.Lambda):
            continue
        short = f.qualname.split(".", 2)[-1].replace(".<locals>", "")
        k_pair = k_conv = 0
        for c in calls_in(f.node):
            ks = [(a, kind(a)) for a in c.args if kind(a)]
            lines = [k for _, k in ks if k[2] == "line"]
            cols = [k for _, k in ks if k[2] == "col"]
            if len(lines) == 1 and len(cols) == 1:
                n += 1
                k_pair += 1
                ok = lines[0][:2] == cols[0][:2]
                res.add(rule, f"{short}|line-and-column-of-the-same-end#{k_pair}", ok, f"{f.unit.rel}:{c.lineno}",
                        "the line number and the column belong to the same end of the same node" if ok else
                        f"`{ast.unparse(c)[:80]}` combines the column of the node's {cols[0][1]} with the line of its {lines[0][1]}"
                        + ("" if lines[0][0] == cols[0][0] else f" (and of another node: {lines[0][0]} / {cols[0][0]})") +
                        ": for an expression written over several lines the offset lies on the wrong line -- a wrapped default or argument is cut in the wrong place, or a "
                        "name on its continuation line is attributed to the wrong scope", function=f.qualname)
            if call_name(c) == "column_to_offset" and len(c.args) >= 2 and kind(c.args[1]):
                line_e = _subst_single_locals(f.node, c.args[0])
                gl = next((x for x in ast.walk(line_e) if isinstance(x, ast.Call) and call_name(x) == "get_line" and x.args and kind(x.args[0])), None)
                if gl is not None:
                    n += 1
                    k_conv += 1
                    lk, ck = kind(gl.args[0]), kind(c.args[1])
                    ok = lk[:2] == ck[:2]
                    res.add(rule, f"{short}|column-converted-on-its-own-line#{k_conv}", ok, f"{f.unit.rel}:{c.lineno}",
                            "the column is converted against the text of its own line" if ok else
                            f"`{ast.unparse(c)[:80]}` converts the column of the node's {ck[1]} against the text of the line of its {lk[1]} "
                            f"(`{ast.unparse(gl)}`): a byte column is turned into a character column by the text in front of it ON ITS LINE; for a node that spans lines, "
                            "non-ASCII text on only one of the two lines shifts the offset", function=f.qualname)
    res.analysed[f"line/column pairs:{rule}"] = n


# ---------------------------------------------------------------------------------------------------------------------
# rope's line model: lines end at "\n" and nowhere else

_LINE_MODEL_SHARED = ("rope.base.codeanalyze", "rope.refactor.sourceutils")


def _splitlines_calls(tree: ast.AST):
    """(call, allowed reason or None) for every `<text>.splitlines(...)` in tree"""
    parents = {}
    for p in ast.walk(tree):
        for c in ast.iter_child_nodes(p):
            parents[id(c)] = p
    out = []
    for c in ast.walk(tree):
        if not (isinstance(c, ast.Call) and isinstance(c.func, ast.Attribute) and c.func.attr == "splitlines"):
            continue
        reason = None
        p = parents.get(id(c))
        if isinstance(p, ast.Call) and any(a is c for a in p.args) and (dotted(p.func) or "").split(".")[0] == "difflib":
            reason = "argument of a difflib call: the pieces are shown to the user, no position is computed from them"
        recv = ast.unparse(c.func.value)
        if reason is None and "doc" in recv.lower():
            reason = "a docstring prepared for display, no source code"
        out.append((c, reason))
    return out


def line_model_rule(ctx, res, rule: str, modules) -> None:
    """A line of Python source ends at "\\n" (rope normalises "\\r\\n" and "\\r" when it reads a file); line numbers of the `ast`,
    of rope's SourceLinesAdapter and of the logical-line finders count exactly those.  `str.splitlines()` also breaks at form
    feed, vertical tab, \\x1c-\\x1e, \\x85, U+2028 and U+2029 -- ordinary characters inside a string literal or a comment (and the
    form feed is the traditional page separator on a line of its own).  A list cut with splitlines runs ahead of every line
    number computed elsewhere; text re-indented piece by piece gets the indentation INSIDE the literal.  So: in the modules the
    property is anchored in (and in the shared text utilities) no source text is cut with `splitlines`; the two accepted uses
    are named (arguments of difflib, docstrings for display)."""
    idx = ctx.idx
    # detector self-check: must see the call in both positions
    probe = ast.parse("def f(s, d):\n    a = s.splitlines(True)\n    return difflib.unified_diff(d.splitlines(True), a)\n")
    got = [(r is None) for _, r in _splitlines_calls(probe)]
    if sorted(got) != [False, True]:
        raise AnalysisError(f"line-model detector self-check failed: {got}")
    mods = [m for m in dict.fromkeys(list(modules) + list(_LINE_MODEL_SHARED)) if m in idx.units]
    if len(mods) < len(_LINE_MODEL_SHARED):
        raise AnalysisError(f"anchor={rule}: modules not found {sorted(set(modules) - set(idx.units))}")
    n_bad = allowed = 0
    for m in mods:
        u = idx.units[m]
        for c, reason in _splitlines_calls(u.tree):
            if reason is not None:
                allowed += 1
                continue
            n_bad += 1
            fn = next((f for f in idx.functions.values() if f.unit is u and f.node.lineno <= c.lineno <= (f.node.end_lineno or c.lineno) and f.parent is None), None)
            name = fn.qualname.split(".", 2)[-1] if fn else m
            res.fail(rule, f"{name}|source-text-cut-at-newlines-only#{n_bad}", f"{u.rel}:{c.lineno}",
                     f"`{ast.unparse(c)[:70]}` cuts source text with str.splitlines(), which also breaks at form feed, \\x1c-\\x1e, \\x85, U+2028 and U+2029: the "
                     "interpreter, the ast's line numbers and rope's own line table count \"\\n\" only, so after a `^L` page separator (or one of these characters in a "
                     "string or comment) the pieces run one line ahead -- a different statement is cut, measured or re-indented than the one the line number names",
                     function=fn.qualname if fn else None)
    res.add(rule, "modules|no-source-text-cut-with-splitlines", n_bad == 0, mods[0].replace(".", "/") + ".py:1",
            f"{len(mods)} modules cut source text at \"\\n\" only ({allowed} accepted use(s): difflib arguments / docstrings)" if n_bad == 0 else
            f"{n_bad} place(s) cut source text with str.splitlines()", modules=mods)


# ---------------------------------------------------------------------------------------------------------------------
# a table of views derived from another table of the same object

def _self_sub(x):
    """`self.<attr>[<key>]` -> (attr, key text) | None"""
    if isinstance(x, ast.Subscript) and is_self_attr(x.value):
        return x.value.attr, ast.unparse(x.slice)
    return None


def _derived_tables(cls_node: ast.ClassDef):
    """[(derived attr M, source attr A, statement, method)] for `self.M[k] = F(... self.A[k] ...)` in a method of the class"""
    out = []
    for m in cls_node.body:
        if not isinstance(m, (ast.FunctionDef, ast.AsyncFunctionDef)):
            continue
        for st in walk_local(m):
            if not isinstance(st, ast.Assign):
                continue
            for t in st.targets:
                ms = _self_sub(t)
                if ms is None:
                    continue
                for y in ast.walk(st.value):
                    a = _self_sub(y)
                    if a is not None and a[0] != ms[0] and a[1] == ms[1] and isinstance(y.ctx, ast.Load):
                        out.append((ms[0], a[0], st, m))
    return out


def _invalidates(fn_node, attr: str, key: Optional[str]) -> bool:
    """does the function drop self.<attr>[key] (or the whole table)?"""
    for x in walk_local(fn_node):
        if isinstance(x, ast.Call) and isinstance(x.func, ast.Attribute) and is_self_attr(x.func.value, attr):
            if x.func.attr == "clear":
                return True
            if x.func.attr == "pop" and x.args and (key is None or ast.unparse(x.args[0]) == key):
                return True
        if isinstance(x, ast.Delete):
            for t in x.targets:
                s_ = _self_sub(t)
                if s_ is not None and s_[0] == attr and (key is None or s_[1] == key):
                    return True
        if isinstance(x, ast.Assign):
            for t in x.targets:
                if is_self_attr(t, attr):
                    return True  # the table is rebuilt
                s_ = _self_sub(t)
                if s_ is not None and s_[0] == attr and (key is None or s_[1] == key):
                    return True
    return False


def derived_table_rule(ctx, res, rule: str, modules) -> None:
    """A table `self.M` whose entries are computed from the entries of another table of the same object (`self.M[k] = F(self.A[k])`,
    a memo of views) answers for `self.A` only as long as every change of `self.A[k]` drops `self.M[k]`: in every method of the
    class that stores into, deletes from or rebuilds `self.A`, the same method drops the entry of `self.M` under the same key
    (pop / del / store / clear / rebuild).  Otherwise the object hands out a view of the REPLACED entry: what is read and
    written through it is no longer what is saved."""
    idx = ctx.idx
    probe = ast.parse("class C:\n    def __getitem__(self, k):\n        v = self._v[k] = View(self._d[k])\n        return v\n"
                      "    def put(self, k, x):\n        self._d[k] = x\n    def drop(self, k):\n        del self._d[k]\n        self._v.pop(k, None)\n").body[0]
    dt = _derived_tables(probe)
    if [(m, a) for m, a, _, _ in dt] != [("_v", "_d")] or _invalidates(probe.body[1], "_v", "k") or not _invalidates(probe.body[2], "_v", "k"):
        raise AnalysisError("derived-table detector self-check failed")
    n_cls = n = 0
    for c in sorted(idx.classes.values(), key=lambda c: c.qualname):
        if c.unit.modname not in modules:
            continue
        n_cls += 1
        seen = set()
        for M, A, st0, m0 in _derived_tables(c.node):
            if (M, A) in seen:
                continue
            seen.add((M, A))
            for m in c.node.body:
                if not isinstance(m, (ast.FunctionDef, ast.AsyncFunctionDef)):
                    continue
                for x in walk_local(m):
                    keys = []
                    if isinstance(x, (ast.Assign, ast.AugAssign, ast.Delete)):
                        tgts = x.targets if isinstance(x, (ast.Assign, ast.Delete)) else [x.target]
                        for t in tgts:
                            s_ = _self_sub(t)
                            if s_ is not None and s_[0] == A:
                                keys.append(s_[1])
                            if is_self_attr(t, A):
                                keys.append(None)
                    for k in keys:
                        n += 1
                        ok = _invalidates(m, M, k)
                        res.add(rule, f"{c.name}.{m.name}|{A}-change-drops-{M}#{n}", ok, f"{c.unit.rel}:{x.lineno}",
                                f"self.{M} is dropped where self.{A} changes" if ok else
                                f"`{ast.unparse(x)[:60]}` changes self.{A}{'[' + k + ']' if k else ''}, and `{m.name}` does not drop self.{M}{'[' + k + ']' if k else ''}, which holds what "
                                f"`{m0.name}` computed from the old entry (`{ast.unparse(st0)[:70]}`): the object keeps handing out a view of the replaced entry -- what is recorded "
                                "through it afterwards is not in the table that is saved", function=f"{c.qualname}.{m.name}")
    res.analysed[f"{rule}:classes"] = n_cls
    stale = sum(1 for i in res.instances if i.rule == rule and i.status == "fail")
    res.add(rule, "classes|derived-tables-follow-their-source", not stale, modules[0].replace(".", "/") + ".py:1",
            f"{n_cls} classes: {n} change(s) of a table that another table of the object is derived from, " + (f"{stale} leave the derived entry in place" if stale else "all drop the derived entry"),
            modules=list(modules))


# ---------------------------------------------------------------------------------------------------------------------
# a forward scan by index stops at the end of what it scans

def _unbounded_forward_scans(tree: ast.AST):
    """while loops whose test reads `<seq>[<i>]` for a name i that the loop increments, without comparing i with len(...) in the test"""
    out = []
    for w in ast.walk(tree):
        if not isinstance(w, ast.While):
            continue
        for c in ast.walk(w.test):
            if not (isinstance(c, ast.Subscript) and isinstance(c.slice, ast.Name) and isinstance(c.ctx, ast.Load)):
                continue
            i = c.slice.id
            inc = any(isinstance(x, ast.AugAssign) and isinstance(x.target, ast.Name) and x.target.id == i and isinstance(x.op, ast.Add) for st in w.body for x in ast.walk(st))
            # `i < len(s)`, or `i < n` for whatever n stands for (`n = len(s)` hoisted): an upper bound on the index in the test
            def upper(k) -> bool:
                terms = [k.left] + list(k.comparators)
                for a, op, b in zip(terms, k.ops, terms[1:]):
                    a_i = any(isinstance(y, ast.Name) and y.id == i for y in ast.walk(a))
                    b_i = any(isinstance(y, ast.Name) and y.id == i for y in ast.walk(b))
                    if (a_i and not b_i and isinstance(op, (ast.Lt, ast.LtE, ast.NotEq))) or (b_i and not a_i and isinstance(op, (ast.Gt, ast.GtE, ast.NotEq))):
                        return True
                return False
            bounded = any(isinstance(k, ast.Compare) and upper(k) for k in ast.walk(w.test))
            if inc and not bounded:
                out.append((w, c))
                break
    return out


# confirmed by reading: one named function, one reason
_SCAN_HAS_A_SENTINEL = {
    "rope.refactor.sourceutils.get_body_region": "skips the blanks between the colon of a one-line `def f(): stmt` and the statement, which the grammar guarantees to follow",
}


def bounded_scan_rule(ctx, res, rule: str, prefix: str = "rope.") -> None:
    """A request at ANY offset of a valid module is answered or refused with one of rope's errors.  The scanners that walk forward
    through a text by an index they increment (`while text[i] == ".": i += 1`) read one position past the end when the text
    consists of nothing else (`from . import name`: the module name is "."): IndexError.  In every such loop the test compares
    the index with the length of what is scanned.  (Expected count on the repaired tree: none without the bound; the detector is
    checked on a fixed example at every run.)"""
    idx = ctx.idx
    probe = ast.parse("def f(s):\n    i = 0\n    while s[i] == '.':\n        i += 1\n    j = 0\n    while j < len(s) and s[j] == '.':\n        j += 1\n    return i, j\n")
    if [ast.unparse(c) for _, c in _unbounded_forward_scans(probe)] != ["s[i]"]:
        raise AnalysisError("bounded-scan detector self-check failed")
    n = n_loops = 0
    for u in sorted(idx.units.values(), key=lambda u: u.modname):
        if not u.modname.startswith(prefix):
            continue
        n_loops += sum(1 for w in ast.walk(u.tree) if isinstance(w, ast.While))
        for w, c in _unbounded_forward_scans(u.tree):
            fn = next((f for f in idx.functions.values() if f.unit is u and f.parent is None and f.node.lineno <= w.lineno <= (f.node.end_lineno or w.lineno)), None)
            name = fn.qualname.split(".", 2)[-1] if fn else u.modname
            if fn is not None and fn.qualname in _SCAN_HAS_A_SENTINEL:
                res.add(rule, f"{name}|forward-scan-ends-at-a-sentinel", True, f"{u.rel}:{w.lineno}", "scan without a bound, accepted: " + _SCAN_HAS_A_SENTINEL[fn.qualname], function=fn.qualname)
                continue
            n += 1
            res.fail(rule, f"{name}|forward-scan-stops-at-the-end#{n}", f"{u.rel}:{w.lineno}",
                     f"`while {ast.unparse(w.test)[:70]}` steps `{c.slice.id}` forward and reads `{ast.unparse(c)}` without comparing the index with the length: when what is scanned "
                     "consists of nothing but the characters skipped (`from . import name`: the module name is '.') the read after the last one raises IndexError -- completion, "
                     "go-to-definition or a refactoring at that offset ends in an internal error instead of an answer or a refusal", function=fn.qualname if fn else None)
    res.analysed[f"{rule}:while loops scanned"] = n_loops
    res.add(rule, "forward-scans|bounded-by-the-length", n == 0, "rope/", f"{n_loops} while loops: " + (f"{n} forward scan(s) by index without a bound" if n else "every forward scan by index compares the index with the length"))


# ---------------------------------------------------------------------------------------------------------------------
# `next((E for v in IT if C), D)` read as the loop it abbreviates

def desugar_next(fn_node: ast.AST) -> ast.AST:
    """A shallow copy of the function in which every statement `T = next((E for v in IT if C1 if C2), D)` (or `return next(...)`) is
    replaced by
        for v in IT:                       for v in IT:
            if C1:                             if C1:
                if C2:                             if C2:
                    T = E                              return E
                    break                      return D
        else:
            T = D
    The sub-expressions E, IT, C*, D are the SAME node objects as in the original, so a rule that has found a condition in the
    function finds it again among the guards of the CFG built on the copy."""
    import copy

    def rewrite(stmts):
        out = []
        for st in stmts:
            st2 = copy.copy(st)
            for fld in ("body", "orelse", "finalbody"):
                v = getattr(st2, fld, None)
                if isinstance(v, list) and v and isinstance(v[0], ast.stmt):
                    setattr(st2, fld, rewrite(v))
            if getattr(st2, "handlers", None):
                hs = []
                for h in st2.handlers:
                    h2 = copy.copy(h)
                    h2.body = rewrite(h.body)
                    hs.append(h2)
                st2.handlers = hs
            val = getattr(st2, "value", None)
            if isinstance(st2, (ast.Assign, ast.Return)) and isinstance(val, ast.Call) and isinstance(val.func, ast.Name) and val.func.id == "next" \
                    and len(val.args) in (1, 2) and isinstance(val.args[0], ast.GeneratorExp) and len(val.args[0].generators) == 1 and not val.keywords \
                    and (isinstance(st2, ast.Return) or (len(st2.targets) == 1 and isinstance(st2.targets[0], ast.Name))):
                g = val.args[0]
                comp = g.generators[0]
                dflt = val.args[1] if len(val.args) == 2 else None
                if isinstance(st2, ast.Return):
                    hit = [ast.copy_location(ast.Return(value=g.elt), st2)]
                    miss = [ast.copy_location(ast.Return(value=dflt), st2)] if dflt is not None else [ast.copy_location(ast.Raise(exc=ast.Name(id="StopIteration", ctx=ast.Load()), cause=None), st2)]
                else:
                    hit = [ast.copy_location(ast.Assign(targets=st2.targets, value=g.elt), st2), ast.copy_location(ast.Break(), st2)]
                    miss = [ast.copy_location(ast.Assign(targets=st2.targets, value=dflt), st2)] if dflt is not None else [ast.copy_location(ast.Raise(exc=ast.Name(id="StopIteration", ctx=ast.Load()), cause=None), st2)]
                body = hit
                for c in reversed(comp.ifs):
                    body = [ast.copy_location(ast.If(test=c, body=body, orelse=[]), st2)]
                loop = ast.copy_location(ast.For(target=comp.target, iter=comp.iter, body=body, orelse=[] if isinstance(st2, ast.Return) else miss), st2)
                out.append(loop)
                if isinstance(st2, ast.Return):
                    out.extend(miss)
                continue
            out.append(st2)
        return out

    new = copy.copy(fn_node)
    new.body = rewrite(fn_node.body)
    ast.fix_missing_locations(new)
    return new


# ---------------------------------------------------------------------------------------------------------------------
# an offset clamped to the text is clamped to its last index when it is used as an index

def clamped_offset_rule(ctx, res, rule: str, cls_qual: str = "rope.base.worder._RealFinder", text_attr: str = "code") -> None:
    """`min(<offset>, len(self.code))` is a valid SLICE bound and one past the last valid INDEX.  In the word finder a value clamped that
    way is never handed to a method that reads `self.code[<that parameter>]` (directly or through another method of the finder):
    for a statement that ends the text without a final newline the clamp is reached, and the read raises IndexError --
    go-to-definition or Rename on `x` in a module ending with `from m import x`."""
    idx = ctx.idx
    cls = idx.need_class(cls_qual)
    # which (method, parameter position) is used as an index into the text: fixpoint over the finder's methods
    indexers: Set[Tuple[str, int]] = set()
    changed = True
    while changed:
        changed = False
        for m in cls.methods.values():
            ps = param_names(m.node)[1:]
            for j, p in enumerate(ps):
                if (m.name, j) in indexers:
                    continue
                hit = False
                # the parameter and the locals that start as a copy of it (`current_offset = offset`)
                names = {p} | {t.id for x in walk_local(m.node) if isinstance(x, ast.Assign) and isinstance(x.value, ast.Name) and x.value.id == p
                               for t in x.targets if isinstance(t, ast.Name)}
                for x in walk_local(m.node):
                    if isinstance(x, ast.Subscript) and is_self_attr(x.value, text_attr) and not isinstance(x.slice, ast.Slice) \
                            and isinstance(x.slice, ast.Name) and x.slice.id in names:
                        hit = True
                    if isinstance(x, ast.Call) and is_self_attr(x.func):
                        for k, a in enumerate(x.args):
                            if isinstance(a, ast.Name) and a.id in names and (x.func.attr, k) in indexers:
                                hit = True
                if hit:
                    indexers.add((m.name, j))
                    changed = True
    if len(indexers) < 2:
        raise AnalysisError(f"anchor={cls_qual}: methods that index self.{text_attr} by a parameter not found")
    n = 0
    for m in cls.methods.values():
        clamped = {}
        for x in walk_local(m.node):
            if isinstance(x, ast.Assign) and len(x.targets) == 1 and isinstance(x.targets[0], ast.Name) and isinstance(x.value, ast.Call) and call_name(x.value) == "min" \
                    and any(isinstance(a, ast.Call) and call_name(a) == "len" and a.args and is_self_attr(a.args[0], text_attr) for a in x.value.args):
                clamped[x.targets[0].id] = x
        for x in walk_local(m.node):
            if isinstance(x, ast.Call) and is_self_attr(x.func):
                for k, a in enumerate(x.args):
                    if isinstance(a, ast.Name) and a.id in clamped and (x.func.attr, k) in indexers:
                        n += 1
                        res.fail(rule, f"_RealFinder.{m.name}|clamped-to-the-last-index#{n}", f"{m.unit.rel}:{x.lineno}",
                                 f"`{ast.unparse(clamped[a.id])}` clamps to the LENGTH of the text and `{ast.unparse(x)[:60]}` reads the character at that offset: when the "
                                 "statement ends the text without a final newline the clamp is reached and the read raises IndexError -- go-to-definition, get_doc or Rename on "
                                 "`x` in a module whose last line is `from m import x`", function=m.qualname)
    res.analysed[f"{rule}:indexing methods"] = sorted(f"{a}#{b}" for a, b in indexers)
    res.add(rule, "_RealFinder|offsets-clamped-to-the-length-are-not-used-as-indices", n == 0, cls.where,
            f"{len(indexers)} (method, parameter) pairs index the text; " + (f"{n} call(s) hand them an offset clamped to len(self.{text_attr})" if n else f"none is handed an offset clamped to len(self.{text_attr})"))


# ---------------------------------------------------------------------------------------------------------------------
# a refactoring over many files is computed for all of them or refused

def _resource_loops(fn_node: ast.AST):
    """for-loops over the files a refactoring has to look at: `for f in resources`, `self.resources`, `...get_python_files()`, `get_files()`"""
    out = []
    for lp in walk_local(fn_node):
        if not isinstance(lp, ast.For):
            continue
        it = _subst_single_locals(fn_node, lp.iter)
        names = {y.id for y in ast.walk(it) if isinstance(y, ast.Name)} | {y.attr for y in ast.walk(it) if isinstance(y, ast.Attribute)}
        if names & {"resources", "get_python_files", "get_files", "python_files"}:
            out.append(lp)
    return sorted(out, key=lambda l: (l.lineno, l.col_offset))


def per_file_no_skip_rule(ctx, res, rule: str, modules) -> None:
    """A refactoring that has to rewrite several files is right only as a whole: the definition in one file, the calls / imports /
    references in the others.  The loop that computes the per-file changes therefore does not survive an error in one file: inside
    `for <file> in resources` (and in the private helpers the loop body calls) there is no `try` whose handler ends without
    raising -- a file that "could not be handled" and is left alone keeps the OLD calls while the definition changes."""
    idx = ctx.idx
    probe = ast.parse("def g(self, resources):\n    for f in resources:\n        try:\n            x = h(f)\n        except SyntaxError:\n            x = None\n"
                      "    for f in resources:\n        try:\n            h(f)\n        except KeyError as e:\n            raise Refused(e)\n").body[0]
    lps = _resource_loops(probe)
    if len(lps) != 2 or [bool(_swallowing_handlers(lp)) for lp in lps] != [True, False]:
        raise AnalysisError("per-file loop detector self-check failed")
    n = k = 0
    for f in sorted(idx.functions.values(), key=lambda f: f.qualname):
        if f.unit.modname not in modules or f.parent is not None:
            continue
        node = inlined(idx, f)
        for lp in _resource_loops(node):
            n += 1
            for h in _swallowing_handlers(lp):
                k += 1
                res.fail(rule, f"{f.qualname.split('.', 2)[-1]}|no-file-is-skipped-on-an-error#{k}", f"{f.unit.rel}:{h.lineno}",
                         f"inside the loop over the files of the refactoring, `except {ast.unparse(h.type) if h.type else ''}:` ends without raising: a file in which the computation "
                         "fails (a call spread over lines that the call parser cannot read, an unresolvable import, ...) is silently left as it is while the definition and every "
                         "other file are rewritten -- its calls now bind other parameters, or name something that no longer exists", function=f.qualname)
    res.analysed[f"{rule}:per-file loops"] = n
    if n == 0:
        raise AnalysisError(f"{rule}: no loop over the files of a refactoring found in {modules}")
    res.add(rule, "per-file-loops|an-error-in-one-file-stops-the-refactoring", k == 0, modules[0].replace(".", "/") + ".py:1",
            f"{n} loop(s) over the files of a refactoring: " + (f"{k} handler(s) inside them swallow an error" if k else "no handler inside them swallows an error"), modules=list(modules))


def _swallowing_handlers(loop: ast.For):
    out = []
    for st in loop.body:
        for t in [st, *walk_local(st)]:
            if isinstance(t, ast.Try):
                for h in t.handlers:
                    if not any(isinstance(x, ast.Raise) for s_ in h.body for x in [s_, *walk_local(s_)]):
                        out.append(h)
    return out


# ---------------------------------------------------------------------------------------------------------------------
# code text is not whitespace-normalised

def _ws_normalisations(tree: ast.AST):
    """`<sep>.join(<text>.split())` -- every run of blanks, tabs and line breaks becomes one separator -- and `re.sub(r"\\s+", ...)`"""
    out = []
    for c in ast.walk(tree):
        if isinstance(c, ast.Call) and isinstance(c.func, ast.Attribute) and c.func.attr == "join" and len(c.args) == 1 and isinstance(c.args[0], ast.Call) \
                and isinstance(c.args[0].func, ast.Attribute) and c.args[0].func.attr == "split" and not c.args[0].args and not c.args[0].keywords:
            out.append(c)
        if isinstance(c, ast.Call) and call_name(c) == "sub" and c.args and isinstance(c.args[0], ast.Constant) and isinstance(c.args[0].value, str) and "\\s" in c.args[0].value:
            out.append(c)
    return out


def no_whitespace_normalisation_rule(ctx, res, rule: str, modules) -> None:
    """Program text that a refactoring moves from one place to another (an argument into the inlined body, an expression into a new
    variable, a value into a setter call) is moved AS IT IS: blanks inside a string literal are data.  `" ".join(text.split())`
    (and `re.sub(r"\\s+", " ", text)`) collapse every run of whitespace, also the two spaces in `"12  items"`.  In the anchored
    modules the result of such a normalisation is only ever COMPARED (`... in ["def", "class"]`), never emitted."""
    idx = ctx.idx
    probe = ast.parse("def f(a, b):\n    w = ' '.join(a.split())\n    if w in ['def']:\n        return 1\n    return 'x = ' + ' '.join(b.split())\n")
    if len(_ws_normalisations(probe)) != 2:
        raise AnalysisError("whitespace-normalisation detector self-check failed")
    n = k = 0
    for f in sorted(idx.functions.values(), key=lambda f: f.qualname):
        if f.unit.modname not in modules or f.parent is not None:
            continue
        hits = _ws_normalisations(f.node)
        if not hits:
            continue
        parents = {}
        for p_ in ast.walk(f.node):
            for ch in ast.iter_child_nodes(p_):
                parents[id(ch)] = p_
        for c in hits:
            n += 1
            p_ = parents.get(id(c))
            only_compared = isinstance(p_, ast.Compare)
            if isinstance(p_, ast.Assign) and len(p_.targets) == 1 and isinstance(p_.targets[0], ast.Name):
                v = p_.targets[0].id
                uses = [y for y in ast.walk(f.node) if isinstance(y, ast.Name) and y.id == v and isinstance(y.ctx, ast.Load)]
                only_compared = bool(uses) and all(isinstance(parents.get(id(y)), ast.Compare) for y in uses)
            if not only_compared:
                k += 1
            res.add(rule, f"{f.qualname.split('.', 2)[-1]}|normalised-text-is-only-compared#{n}", only_compared, f"{f.unit.rel}:{c.lineno}",
                    "the whitespace-normalised text is only compared with keywords" if only_compared else
                    f"`{ast.unparse(c)[:60]}` collapses every run of whitespace of program text that is then written into the result: blanks inside a string literal are data -- an "
                    "argument `'12  '` + newline + `'items'` spread over two lines is inlined as `'12 ' 'items'`, and the program prints something else", function=f.qualname)
    res.add(rule, "modules|program-text-is-not-whitespace-normalised", k == 0, modules[0].replace(".", "/") + ".py:1",
            f"{n} whitespace normalisation(s) in the anchored modules, " + (f"{k} of them emitted" if k else "none emitted"), modules=list(modules))


# ---------------------------------------------------------------------------------------------------------------------
# strip(chars) removes a SET of characters, not a prefix or suffix

def _affix_strips(tree: ast.AST):
    out = []
    for c in ast.walk(tree):
        if isinstance(c, ast.Call) and isinstance(c.func, ast.Attribute) and c.func.attr in ("strip", "lstrip", "rstrip") and len(c.args) == 1 \
                and isinstance(c.args[0], ast.Constant) and isinstance(c.args[0].value, (str, bytes)):
            v = c.args[0].value
            v = v.decode("latin-1") if isinstance(v, bytes) else v
            if len(v) >= 2 and sum(ch.isalnum() or ch == "_" for ch in v) >= 2:
                out.append(c)
    return out


def affix_strip_rule(ctx, res, rule: str, prefix: str = "rope.") -> None:
    """`name.rstrip(".py")` does not remove the extension: it removes every trailing `.`, `p` and `y` -- `inventory.py` becomes
    `inventor`, `copy.py` becomes `co`.  A strip whose argument spells a word or an extension (two or more letters / digits) is a
    prefix or suffix removal written with the wrong method; module names, attribute names and keywords that end in one of those
    letters come out shorter and no longer compare equal.  None occurs in rope (sets of punctuation such as `rstrip("/\\\\")` are what
    the method is for); the detector is checked on a fixed example at every run."""
    idx = ctx.idx
    probe = ast.parse("a = n.rstrip('.py')\nb = p.rstrip('/\\\\')\nc = s.lstrip('self.')\nd = t.strip(':')\n")
    if [ast.unparse(c.args[0]) for c in _affix_strips(probe)] != ["'.py'", "'self.'"]:
        raise AnalysisError("affix-strip detector self-check failed")
    n = k = 0
    for u in sorted(idx.units.values(), key=lambda u: u.modname):
        if not u.modname.startswith(prefix):
            continue
        n += 1
        for c in _affix_strips(u.tree):
            k += 1
            fn = next((f for f in idx.functions.values() if f.unit is u and f.parent is None and f.node.lineno <= c.lineno <= (f.node.end_lineno or c.lineno)), None)
            name = fn.qualname.split(".", 2)[-1] if fn else u.modname
            res.fail(rule, f"{name}|strip-is-no-affix-removal#{k}", f"{u.rel}:{c.lineno}",
                     f"`{ast.unparse(c)[:60]}` strips the CHARACTERS {sorted(set(c.args[0].value if isinstance(c.args[0].value, str) else c.args[0].value.decode('latin-1')))} from the end(s), "
                     "not the affix: a module called `inventory.py` / `copy.py` / `setup.py` comes out as `inventor` / `co` / `setu`, the name no longer compares equal to the word "
                     "being renamed, and the references are rewritten while the file stays (ModuleNotFoundError)", function=fn.qualname if fn else None)
    res.add(rule, "modules|no-affix-removed-with-strip", k == 0, "rope/", f"{n} modules: " + (f"{k} strip call(s) whose argument spells an affix" if k else "no strip call whose argument spells an affix"))


def plain_guards(cfg, node_id: int):
    """cfg.guards(node) with a leading `not` folded into the polarity: (`not p`, False) is (p, True)"""
    out = []
    for t, pol in cfg.guards(node_id):
        while isinstance(t, ast.UnaryOp) and isinstance(t.op, ast.Not):
            t, pol = t.operand, not pol
        out.append((t, pol))
    return out


def flag_sources(cfg, fn_node, name: str):
    """For a local that is assigned in several places and then tested (`ok = False` ... `ok = a == b` ... `if ok:` -- what a predicate with
    early returns becomes when it is read in place): the expressions that decide it -- the values assigned and the tests those
    assignments stand under."""
    out = []
    for nd in cfg.nodes:
        if nd.kind == "stmt" and isinstance(nd.ast, ast.Assign) and any(isinstance(t, ast.Name) and t.id == name for t in nd.ast.targets):
            out.append(nd.ast.value)
            out += [t for t, _ in plain_guards(cfg, nd.id)]
    return out


# ---------------------------------------------------------------------------------------------------------------------
# indentation is changed line by line only outside string literals

def _is_blanks(e) -> bool:
    if isinstance(e, ast.BinOp) and isinstance(e.op, ast.Mult):
        return any(isinstance(s, ast.Constant) and isinstance(s.value, str) and s.value and not s.value.strip(" \t") for s in (e.left, e.right))
    return False


def _indent_ops_in(roots, names):
    """[(node, kind)] -- the operations below `roots` that read or change the LEADING BLANKS of a line held in one of `names`:
    blanks put in front of it, `.lstrip()`, `count_line_indents(line)`, blanks emitted on their own"""
    out = []
    for st in roots:
        for x in ast.walk(st):
            r = x.right if isinstance(x, ast.BinOp) else None
            if isinstance(r, ast.Call) and isinstance(r.func, ast.Attribute) and r.func.attr == "lstrip":
                r = r.func.value
            if isinstance(x, ast.BinOp) and isinstance(x.op, ast.Add) and (_is_blanks(x.left) or _names_blanks(x.left, roots)) and isinstance(r, ast.Name) and r.id in names:
                out.append((x, "blanks put in front of the line"))
            elif isinstance(x, ast.Call) and isinstance(x.func, ast.Attribute) and x.func.attr == "lstrip" and isinstance(x.func.value, ast.Name) \
                    and x.func.value.id in names and not x.args:
                out.append((x, "the line's leading blanks removed"))
            elif isinstance(x, ast.Call) and call_name(x) == "count_line_indents" and x.args and isinstance(x.args[0], ast.Name) and x.args[0].id in names:
                out.append((x, "the line's leading blanks counted"))
            elif isinstance(x, ast.Call) and call_name(x) == "append" and len(x.args) == 1 and _is_blanks(x.args[0]):
                out.append((x, "blanks emitted in front of the line"))
            elif isinstance(x, ast.Call) and call_name(x) == "append" and len(x.args) == 1 and isinstance(x.args[0], ast.Constant) and x.args[0].value == "\n":
                out.append((x, "a blank line replaced by a bare line break"))
            elif isinstance(x, ast.Return) and isinstance(x.value, ast.Constant) and x.value.value == "\n":
                out.append((x, "a blank line replaced by a bare line break"))
            elif isinstance(x, ast.IfExp) and any(isinstance(b, ast.Constant) and b.value == "\n" for b in (x.body, x.orelse)):
                out.append((x.body if isinstance(x.body, ast.Constant) and x.body.value == "\n" else x.orelse, "a blank line replaced by a bare line break"))
    return out


_BLANK_LOCALS: Dict[int, Set[str]] = {}


def _names_blanks(e, roots) -> bool:
    """`prefix + line` where `prefix = " " * n` was bound in the enclosing function (registered by the rule before the walk)"""
    return isinstance(e, ast.Name) and any(e.id in _BLANK_LOCALS.get(id(r), ()) for r in roots)


def _indent_ops(loop: ast.For):
    names = {x.id for x in ast.walk(loop.target) if isinstance(x, ast.Name)}
    return _indent_ops_in(loop.body, names)


def _expr_conditions(root: ast.AST, target: ast.AST):
    """[(test, polarity)] that hold when `target`, a node below the expression `root`, is evaluated: the tests of the conditional
    expressions it stands in, and the earlier operands of an `and` / `or` it is a later operand of"""
    out = []

    def go(node, acc) -> bool:
        if node is target:
            out.extend(acc)
            return True
        if isinstance(node, ast.IfExp):
            return go(node.test, acc) or go(node.body, acc + [(node.test, True)]) or go(node.orelse, acc + [(node.test, False)])
        if isinstance(node, ast.BoolOp):
            pol = isinstance(node.op, ast.And)
            seen = list(acc)
            for v in node.values:
                if go(v, seen):
                    return True
                seen = seen + [(v, pol)]
            return False
        return any(go(c, acc) for c in ast.iter_child_nodes(node))

    go(root, [])
    return out


def _flag_is_off(conds, flag: str) -> bool:
    """the conditions establish that the name `flag` is false"""
    def facts(t, pol, depth=0):
        if depth > 6:
            return
        if isinstance(t, ast.UnaryOp) and isinstance(t.op, ast.Not):
            yield from facts(t.operand, not pol, depth + 1)
        elif isinstance(t, ast.BoolOp) and ((isinstance(t.op, ast.And) and pol) or (isinstance(t.op, ast.Or) and not pol)):
            for v in t.values:
                yield from facts(v, pol, depth + 1)
        else:
            yield t, pol
    return any(isinstance(t, ast.Name) and t.id == flag and not pol for c, p in conds for t, pol in facts(c, p))


def string_aware_indent_rule(ctx, res, rule: str, modules, floor: int = 3) -> None:
    """A physical line that STARTS inside a string literal (the continuation lines of a triple-quoted string) has no indentation: its
    leading blanks are part of the string's value.  Code that re-indents program text line by line -- when a body is extracted, inlined,
    moved, or a restructuring's goal is fitted to the place of the match -- must leave such lines alone, and must not count them when it
    measures the indentation of a block.  So: in the refactoring modules every iteration over lines (a `for` statement or a comprehension)
    that puts blanks in front of the line, strips or counts its leading blanks -- itself, or through a helper of the module that is handed
    the line -- (a) takes its lines from the helper that pairs each line with the "starts inside a string" flag (a generator that
    consults `ignored_regions` and yields 2-tuples), and (b) performs the operation only where that flag was tested and is off (CFG guard,
    filter of the comprehension, test of a conditional expression, earlier operand of an `and`)."""
    from ..cfg import CFG
    idx = ctx.idx
    helpers = set()
    for f in idx.functions.values():
        if f.unit.modname.startswith("rope.refactor") and any(call_name(c) == "ignored_regions" for c in calls_in(f.node)) \
                and any(isinstance(y, ast.Yield) and isinstance(y.value, ast.Tuple) and len(y.value.elts) == 2 for y in walk_local(f.node)):
            helpers.add(f.name)
    mods = [m for m in modules if m in idx.units]
    if not mods:
        raise AnalysisError(f"anchor={rule}: none of the modules {modules} found")

    def per_line_helper_ops(f, call: ast.Call, names):
        """a call `g(line, ...)` of a plain function of the same module whose body works on the leading blanks of that parameter"""
        if not isinstance(call.func, ast.Name):
            return []
        g = next((x for x in idx.functions.values() if x.unit is f.unit and x.cls is None and x.parent is None and x.name == call.func.id), None)
        if g is None or g.name in helpers:
            return []
        params = param_names(g.node)
        held = {params[i] for i, a in enumerate(call.args) if i < len(params) and isinstance(a, ast.Name) and a.id in names}
        if not held:
            return []
        ops = _indent_ops_in(g.node.body, held)
        # the flag may be handed to the helper with the line: then the helper's own tests of that parameter count
        passed = {params[i]: a.id for i, a in enumerate(call.args) if i < len(params) and isinstance(a, ast.Name)}
        passed.update({k.arg: k.value.id for k in call.keywords if k.arg and isinstance(k.value, ast.Name)})
        gcfg = CFG(g.node)
        out = []
        for x, kind in ops:
            inner = {}
            for p_, a_ in passed.items():
                nodes = gcfg.node_containing(x)
                if nodes and all(_flag_is_off(gcfg.guards(nd.id) + _expr_conditions(nd.ast, x) if nd.ast is not None else gcfg.guards(nd.id), p_) for nd in nodes):
                    inner[a_] = True
            out.append((call, kind + f" (in {g.name})", inner))
        return out

    def flag_of(target, it, fnode):
        if isinstance(it, ast.Call) and call_name(it) == "enumerate" and it.args:
            it = it.args[0]
        if isinstance(it, ast.Name):
            it = _subst_single_locals(fnode, it)
        if not (isinstance(it, ast.Call) and call_name(it) in helpers):
            return None
        tgt = target
        if isinstance(tgt, ast.Tuple) and len(tgt.elts) == 2 and isinstance(tgt.elts[0], ast.Name) and isinstance(tgt.elts[1], ast.Tuple):
            tgt = tgt.elts[1]  # for index, (line, flag) in enumerate(...)
        if isinstance(tgt, ast.Tuple) and len(tgt.elts) == 2 and isinstance(tgt.elts[1], ast.Name):
            return tgt.elts[1].id
        return None

    n = 0
    for f in sorted(idx.functions.values(), key=lambda f: f.qualname):
        if f.unit.modname not in mods or f.name in helpers:
            continue
        fnode = f.node
        blanks = {t.id for a in walk_local(fnode) if isinstance(a, ast.Assign) and _is_blanks(a.value) for t in a.targets if isinstance(t, ast.Name)}
        # the iteration sites: (kind of site, target, iterable, roots of the body, filters)
        sites = []
        for l in walk_local(fnode):
            if isinstance(l, ast.For):
                sites.append(("for", l.target, l.iter, l.body, [], l))
            elif isinstance(l, (ast.ListComp, ast.GeneratorExp, ast.SetComp)) and len(l.generators) == 1:
                g = l.generators[0]
                sites.append(("comp", g.target, g.iter, [l.elt] + list(g.ifs), [(t, True) for t in g.ifs], l))
        cfg = None
        per_kind: Dict[str, int] = {}
        for site_kind, target, it, roots, filters, holder in sites:
            names = {x.id for x in ast.walk(target) if isinstance(x, ast.Name)}
            for r in roots:
                _BLANK_LOCALS[id(r)] = blanks
            ops = [(x, kind, {}) for x, kind in _indent_ops_in(roots, names)]
            for r in roots:
                for c in ast.walk(r):
                    if isinstance(c, ast.Call):
                        ops += per_line_helper_ops(f, c, names)
            for r in roots:
                _BLANK_LOCALS.pop(id(r), None)
            if not ops:
                continue
            flag = flag_of(target, it, fnode)
            for x, kind, off_inside in ops:
                n += 1
                slug = kind.split(" (in ")[0].replace("the line's ", "").replace(" ", "-")
                per_kind[slug] = per_kind.get(slug, 0) + 1
                key = f"{f.qualname.split('.', 2)[-1]}|{slug}-only-outside-strings#{per_kind[slug]}"
                where = f"{f.unit.rel}:{x.lineno}"
                if flag is None:
                    res.fail(rule, key, where,
                             f"{f.qualname.split('.', 2)[-1]}: {kind} for EVERY physical line of the text (`{ast.unparse(it)[:60]}`): a line that starts inside a "
                             "triple-quoted string is re-indented (or measured) like code -- `return len(\"\"\"a\\nb\"\"\")` in an indented block becomes "
                             "`\"\"\"a\\n    b\"\"\"`, the value of the literal changes silently", function=f.qualname)
                    continue
                conds = list(filters)
                for r in roots:
                    if any(y is x for y in ast.walk(r)):
                        conds += _expr_conditions(r, x)
                ok = _flag_is_off(conds, flag) or off_inside.get(flag, False)
                if not ok and site_kind == "for":
                    cfg = cfg or CFG(fnode)
                    nodes = cfg.node_containing(x)
                    ok = bool(nodes) and all(_flag_is_off(cfg.guards(nd.id), flag) for nd in nodes)
                res.add(rule, key, ok, where,
                        f"{kind} only where the line does not start inside a string" if ok else
                        f"{f.qualname.split('.', 2)[-1]}: {kind} where `{flag}` was not tested (or is on): the continuation lines of a multi-line "
                        "string literal are re-indented with the code and the literal's value changes", function=f.qualname)
    res.floor(rule, "per-line indentation operations", n, floor)
    # (c) the flag itself: the generator walks the lines and the (sorted) string regions side by side.  Before a line is judged, the
    # region cursor has caught up with the line's offset -- it is advanced in a LOOP while the region at hand ends before the line;
    # one step per line falls behind as soon as a line holds two strings or comments, and the flag is then computed from a stale region
    for hname in sorted(helpers):
        for hf in [x for x in idx.functions.values() if x.name == hname and x.unit.modname.startswith("rope.refactor")]:
            hnode = inline_private_calls(idx, hf)
            line_loops = [l for l in walk_local(hnode) if isinstance(l, ast.For)]
            advances = []
            for l in line_loops:
                whiles = [w for w in ast.walk(l) if isinstance(w, ast.While)]
                for c in ast.walk(l):
                    if isinstance(c, ast.Call) and isinstance(c.func, ast.Name) and c.func.id == "next":
                        advances.append((c, any(any(y is c for y in ast.walk(w)) for w in whiles)))
            if not advances:
                continue  # no cursor (a search per line): nothing to fall behind
            behind = [c for c, in_loop in advances if not in_loop]
            res.add(rule, f"{hf.qualname.split('.', 2)[-1]}|the-region-cursor-catches-up-in-a-loop", not behind, f"{hf.unit.rel}:{(behind[0] if behind else advances[0][0]).lineno}",
                    "the region cursor is advanced in a loop until it no longer lies before the line" if not behind else
                    f"{hf.name}: the region cursor is advanced by at most ONE region per line (`{ast.unparse(behind[0])[:50]}` outside any `while`): after a line with two strings "
                    "or comments the cursor lags, `in_string` is computed from a region that has already ended -- the next line of a multi-statement goal is "
                    "left unindented, or the continuation line of a triple-quoted string is re-indented", function=hf.qualname)
    # the detector on fixed examples
    probe = ast.parse("def g(t, k):\n    r = []\n    for i, line in enumerate(split_lines(t, True)):\n        if i:\n            r.append(' ' * k)\n        r.append(line)\n"
                      "    for line in t.split('\\n'):\n        r.append(' ' * k + line.lstrip())\n        n = count_line_indents(line)\n").body[0]
    got = sorted(k for l in ast.walk(probe) if isinstance(l, ast.For) for _, k in _indent_ops(l))
    e = ast.parse("(p + line if i and not s else line)", mode="eval").body
    if len(got) < 4 or not _flag_is_off(_expr_conditions(e, e.body), "s") or _flag_is_off(_expr_conditions(e, e.orelse), "s"):
        raise AnalysisError(f"{rule}: the detector of per-line indentation operations no longer sees the fixed examples: {got}")


def rename_module_step(idx):
    """The method of `Rename` that builds the move of the renamed module's file (`_rename_module` on the pinned tree): found by what
    it does -- it constructs the MoveResource -- so that renaming the private method loses nothing."""
    cls = idx.need_class("rope.refactor.rename.Rename")
    ms = [m for m in cls.methods.values() if any(call_name(c) == "MoveResource" for c in calls_in(m.node))]
    if not ms:
        raise AnalysisError("anchor=rope.refactor.rename.Rename: no method constructs the MoveResource of a module rename")
    own = [m for m in ms if m.name != "get_changes"]
    return (own or ms)[0]
