"""C20 -- completion proposals (clauses R20.1-R20.21)."""
from __future__ import annotations

import ast
from typing import List, Optional

from ..cfg import CFG
from ..core import AnalysisError, call_name, calls_in, is_self_attr, norm, walk_local, param_names

EXPLANATION = (
    "R20.1: every construction of a CompletionProposal / NamedParamProposal inside the completion engine is guarded "
    "(CFG edge-dominance, or the comprehension's own if-clause) by <proposed name>.startswith(<typed prefix>), where "
    "the prefix is the attribute unpacked from get_splitted_primary_before or a parameter that receives it at every "
    "call site -- necessary and sufficient for 'every proposal extends the typed text'.  R20.2: the scope walk uses "
    "get_names() only for the innermost scope and get_propagated_names() for enclosing scopes (so class attributes are "
    "not offered inside methods).  R20.3: the scope lookup is given the line number and the indentation of the same "
    "line.  R20.4: in find_definition the offset-restricting filter precedes the accepting identity filter.  R20.5 (=R14.8): the word finder consults the hard-keyword oracle only (soft keywords are identifiers).  R20.6: a definition line is compared with lines of the completed module only under a test that the definition's module is that module.  'Returns without internal error at every position' and completeness are not decided."
    ' R20.9: the try-block repair classifies comment lines on the stripped line.  R20.10: the offset ledger of the repair books exactly the length change of every edit of the line list, before the old line is gone, and shifts an offset by the lines strictly before its own.'
    ' R20.11 (=R01.4): a call keyword is answered in the keyword branch; a word that only looks like one still reaches the ordinary name evaluation.'
)
EXPLANATION += ' R20.15: the returned prefix is cut from the start offset that is returned.'
EXPLANATION += ' R20.13: identifier characters.  R20.14: an object expression is split off only behind a character found to be a dot.'
EXPLANATION += " R20.16: in the anchored modules and the shared text utilities no source text is cut with str.splitlines() (it breaks at form feed, \x1c-\x1e, \x85, U+2028/9; rope's and the ast's line numbers count \n only)."
EXPLANATION += " R20.18: every while loop that steps an index forward through a text compares the index with the length in its test."
EXPLANATION += " R20.19: in the word finder an offset clamped to len(self.code) is never handed to a method that reads self.code at that offset."
EXPLANATION += " R20.20: in the repair of an incomplete line the `pass` placeholder keeps the statement's own indentation or goes one level inside the header above it."
EXPLANATION += " R20.22: in FixSyntax an offset into the typed code reaches a table of the repaired module only through transferred_offset."
EXPLANATION += " R20.21: a line number obtained by counting line breaks is incremented by one before it is handed to a function that takes line numbers."
EXPLANATION += " R20.23: in the completion module the parameter names of an object that comes from get_object() are read only under isinstance(<object>, <function class>) -- in the function or on every non-None return of the private step that hands the object back."
ASSUMPTIONS = ["proposal name is the first constructor argument"]

PROPOSALS = {"CompletionProposal", "NamedParamProposal"}


def _parents(root: ast.AST):
    par = {}
    for n in ast.walk(root):
        for c in ast.iter_child_nodes(n):
            par[id(c)] = n
    return par


def _check_body(ctx, res) -> None:
    idx = ctx.idx
    eng = idx.need_class("rope.contrib.codeassist._PythonCodeAssist")
    init = eng.methods.get("__init__")
    # the prefix attribute: unpacked from get_splitted_primary_before
    prefix_attr = None
    for n in walk_local(init.node):
        if isinstance(n, ast.Assign) and isinstance(n.value, ast.Call) and call_name(n.value) == "get_splitted_primary_before" \
                and isinstance(n.targets[0], ast.Tuple) and len(n.targets[0].elts) == 3 and is_self_attr(n.targets[0].elts[1]):
            prefix_attr = n.targets[0].elts[1].attr
    if prefix_attr is None:
        raise AnalysisError("anchor=typed prefix (2nd component of get_splitted_primary_before unpacked into self.<attr>) not found")
    res.analysed["prefix_attr"] = prefix_attr

    def is_prefix(e: ast.AST, m) -> bool:
        if is_self_attr(e, prefix_attr):
            return True
        if isinstance(e, ast.Name) and e.id in param_names(m.node):
            # every call site in the class passes self.<prefix_attr> for this parameter
            i = param_names(m.node).index(e.id) - 1
            sites = [c for mm in eng.methods.values() for c in calls_in(mm.node) if is_self_attr(c.func, m.name)]
            return bool(sites) and all(len(c.args) > i and is_self_attr(c.args[i], prefix_attr) for c in sites)
        return False

    n = 0
    for mname, m in sorted(eng.methods.items()):
        par = _parents(m.node)
        cfg = None
        for c in calls_in(m.node, local=False):
            if call_name(c) not in PROPOSALS or not c.args:
                continue
            n += 1
            name_arg = c.args[0]
            construct = f"{mname}|{call_name(c)}"
            where = f"{m.unit.rel}:{c.lineno}"
            if not isinstance(name_arg, ast.Name):
                res.undecided("R20.1", construct, where, "proposal name is not a plain variable")
                continue
            ok = False
            # comprehension guard
            p = par.get(id(c))
            while p is not None and not isinstance(p, (ast.FunctionDef, ast.AsyncFunctionDef)):
                if isinstance(p, (ast.ListComp, ast.SetComp, ast.GeneratorExp, ast.DictComp)):
                    for g in p.generators:
                        for cond in g.ifs:
                            for t in (cond.values if isinstance(cond, ast.BoolOp) and isinstance(cond.op, ast.And) else [cond]):
                                if isinstance(t, ast.Call) and call_name(t) == "startswith" and isinstance(t.func.value, ast.Name) \
                                        and t.func.value.id == name_arg.id and t.args and is_prefix(t.args[0], m):
                                    ok = True
                p = par.get(id(p))
            if not ok:
                cfg = cfg or CFG(m.node)
                nodes = cfg.node_containing(c)
                for nd in nodes:
                    for t, pol in cfg.guards(nd.id):
                        if pol and isinstance(t, ast.Call) and call_name(t) == "startswith" and isinstance(t.func.value, ast.Name) \
                                and t.func.value.id == name_arg.id and t.args and is_prefix(t.args[0], m):
                            ok = True
            res.add("R20.1", construct, ok, where,
                    f"proposal for '{name_arg.id}' is constructed only under {name_arg.id}.startswith(<typed prefix>)" if ok else
                    f"{mname}: a {call_name(c)} for '{name_arg.id}' can be constructed without {name_arg.id}.startswith(self.{prefix_attr}) holding: "
                    "completion offers names that do not extend the text typed so far")
    res.floor("R20.1", "proposal construction sites", n, 5)

    # ---- R20.2
    und = eng.methods.get("_undotted_completions")
    if not und:
        raise AnalysisError("anchor=_undotted_completions not found")
    ps = param_names(und.node)
    if "lineno" not in ps:
        raise AnalysisError("anchor=_undotted_completions(lineno=) parameter not found")
    li = ps.index("lineno") - 1
    cfg = CFG(und.node)
    rec = [c for c in calls_in(und.node) if is_self_attr(c.func, und.name)]
    ok_rec = bool(rec) and all(
        len(c.args) <= li and not any(k.arg == "lineno" and not (isinstance(k.value, ast.Constant) and k.value.value is None) for k in c.keywords)
        and c.args and isinstance(c.args[0], ast.Attribute) and c.args[0].attr == "parent" for c in rec)
    if not rec:
        # the walk up the parents written as a loop: the enclosing scopes are collected as (scope, None) pairs while
        # following `.parent`, the given scope as (scope, lineno), and one loop over the pairs binds `lineno` again
        pairs_none = [c for w in walk_local(und.node) if isinstance(w, ast.While) and any(isinstance(x, ast.Attribute) and x.attr == "parent" for x in ast.walk(w.test))
                      for st in w.body for c in ast.walk(st)
                      if isinstance(c, ast.Call) and isinstance(c.func, ast.Attribute) and c.func.attr in ("append", "insert") and c.args
                      and isinstance(c.args[-1], ast.Tuple) and len(c.args[-1].elts) == 2]
        rebinding = [l for l in walk_local(und.node) if isinstance(l, ast.For) and isinstance(l.target, ast.Tuple) and len(l.target.elts) == 2
                     and isinstance(l.target.elts[1], ast.Name) and l.target.elts[1].id == "lineno"]
        ok_rec = bool(pairs_none) and bool(rebinding) and all(isinstance(c.args[-1].elts[1], ast.Constant) and c.args[-1].elts[1].value is None for c in pairs_none)
    src = {}
    for nd in cfg.nodes:
        if nd.kind == "stmt" and isinstance(nd.ast, ast.Assign) and isinstance(nd.ast.targets[0], ast.Name) \
                and isinstance(nd.ast.value, ast.Call) and call_name(nd.ast.value) in ("get_names", "get_propagated_names"):
            pol = None
            for t, p in cfg.guards(nd.id):
                if isinstance(t, ast.Compare) and isinstance(t.left, ast.Name) and t.left.id == "lineno" \
                        and isinstance(t.comparators[0], ast.Constant) and t.comparators[0].value is None:
                    pol = p if isinstance(t.ops[0], ast.Is) else (not p)
            src[call_name(nd.ast.value)] = pol
    ok_src = src.get("get_propagated_names") is True and src.get("get_names") is False
    ext = [c for mm in eng.methods.values() if mm is not und for c in calls_in(mm.node) if is_self_attr(c.func, und.name)]
    ok_ext = bool(ext) and all(any(k.arg == "lineno" for k in c.keywords) or len(c.args) > li for c in ext)
    ok = ok_rec and ok_src and ok_ext
    res.add("R20.2", "_undotted_completions", ok, und.where,
            "innermost scope contributes get_names(); enclosing scopes are reached by the recursion without lineno and contribute get_propagated_names()" if ok else
            "_undotted_completions: " + ("the recursion on scope.parent passes a line number (enclosing scopes then contribute all names); " if not ok_rec else "")
            + ("the lineno-is-None branch does not select get_propagated_names(); " if not ok_src else "")
            + ("the entry call does not pass lineno for the innermost scope; " if not ok_ext else "")
            + "class attributes become visible inside methods (or locals of the innermost scope are lost)")

    # ---- R20.3 the scope of the cursor is looked up with the line number and the indentation of the SAME line
    n3 = 0
    for mname, m in sorted(eng.methods.items()):
        for c in calls_in(m.node):
            if call_name(c) != "get_inner_scope_for_line" or len(c.args) < 2:
                continue
            n3 += 1
            line_arg, ind_arg = c.args[0], c.args[1]
            src = None
            if isinstance(ind_arg, ast.Name):
                for n in walk_local(m.node):
                    if isinstance(n, ast.Assign) and isinstance(n.targets[0], ast.Name) and n.targets[0].id == ind_arg.id:
                        src = n.value
            ok = None
            if src is not None and isinstance(src, ast.Call) and src.args and isinstance(src.args[0], ast.Subscript):
                ix = src.args[0].slice
                # lines[L - 1]  (1-based line number into a 0-based list)
                ok = isinstance(ix, ast.BinOp) and isinstance(ix.op, ast.Sub) and norm(ix.left) == norm(line_arg) \
                    and isinstance(ix.right, ast.Constant) and ix.right.value == 1
            res.add("R20.3", f"{mname}|get_inner_scope_for_line", ok, f"{m.unit.rel}:{c.lineno}",
                    "scope lookup uses the line number and the indentation of the same line" if ok else
                    "the holding scope is looked up with the line number of one line and the indentation of another: on a continuation line "
                    "indented differently from its statement the enclosing class/outer scope is chosen, so locals are not offered and class attributes are")
    res.floor("R20.3", "indent-qualified scope lookups", n3, 1)

    # ---- R20.4 go-to-definition: the "not before the binding line" filter must be consulted before the identity filter
    from .c02 import filter_order_rule

    filter_order_rule(ctx, res, "R20.4", "rope.contrib.findit.find_definition")

    # ---- R20.5 (=R14.8) the word finder knows hard keywords only
    from .common import hard_keyword_rule

    hard_keyword_rule(ctx, res, "R20.5")

    # ---- R20.6 line numbers are comparable only within one module: where the completion engine compares the LINE of a
    # definition location with a line of the module being completed, the same decision tests the location's MODULE
    from ..cfg import CFG as _CFG2

    n6 = 0
    for f in sorted(idx.functions.values(), key=lambda f: f.qualname):
        if f.unit.modname != "rope.contrib.codeassist":
            continue
        locs = {}   # name -> ("pair", None) | ("line", modvar) | ("mod", linevar)
        for x in walk_local(f.node):
            if isinstance(x, ast.Assign) and isinstance(x.value, ast.Call) and call_name(x.value) == "get_definition_location":
                t = x.targets[0]
                if isinstance(t, ast.Name):
                    locs[t.id] = ("pair", None)
                elif isinstance(t, ast.Tuple) and len(t.elts) == 2 and all(isinstance(e, ast.Name) for e in t.elts):
                    locs[t.elts[1].id] = ("line", t.elts[0].id)
                    locs[t.elts[0].id] = ("mod", t.elts[1].id)
        if not locs:
            continue

        def is_line(e: ast.AST) -> bool:
            return (isinstance(e, ast.Name) and locs.get(e.id, ("", 0))[0] == "line") or \
                (isinstance(e, ast.Subscript) and isinstance(e.value, ast.Name) and locs.get(e.value.id, ("", 0))[0] == "pair"
                 and isinstance(e.slice, ast.Constant) and e.slice.value == 1)

        def is_mod(e: ast.AST) -> bool:
            return (isinstance(e, ast.Name) and locs.get(e.id, ("", 0))[0] == "mod") or \
                (isinstance(e, ast.Subscript) and isinstance(e.value, ast.Name) and locs.get(e.value.id, ("", 0))[0] == "pair"
                 and isinstance(e.slice, ast.Constant) and e.slice.value == 0)

        def mod_test(t: ast.AST) -> bool:
            return isinstance(t, ast.Compare) and any(isinstance(o, (ast.Eq, ast.Is)) for o in t.ops) and \
                any(is_mod(e) for e in [t.left, *t.comparators])

        cfg = None
        for x in walk_local(f.node):
            if not (isinstance(x, ast.Compare) and any(isinstance(o, (ast.Lt, ast.LtE, ast.Gt, ast.GtE)) for o in x.ops)):
                continue
            if not any(is_line(e) for e in [x.left, *x.comparators]):
                continue
            n6 += 1
            ok = False
            for b in walk_local(f.node):
                if isinstance(b, ast.BoolOp) and isinstance(b.op, ast.And) and any(v is x for v in b.values) and any(mod_test(v) for v in b.values):
                    ok = True
            if not ok:
                cfg = cfg or _CFG2(f.node)
                for nd in cfg.node_containing(x):
                    if any(pol and mod_test(t) for t, pol in cfg.guards(nd.id)):
                        ok = True
            res.add("R20.6", f"{f.qualname.split('.', 3)[-1]}|line-compare#{n6}", ok, f"{f.unit.rel}:{x.lineno}",
                    "the definition line is compared only together with a test that the definition lies in this module" if ok else
                    f"{f.name} compares the line of a definition location (`{ast.unparse(x)}`) with lines of the module being completed without testing that "
                    "the definition is in this module: a name imported from another module whose definition happens to sit on a later line number "
                    "there is taken for a local defined after the cursor and is not offered", function=f.qualname)
    res.floor("R20.6", "definition-line comparisons in the completion engine", n6, 1)

    # ---- R20.7 (=R14.5): the scope that holds a cursor line comes from the logical-line scanner
    from .c14 import escape_parity_rule

    escape_parity_rule(ctx, res, "R20.7")

    # ---- R20.8 (=R14.10): a keyword recognised by a text slice needs a word boundary in front of it
    from .common import keyword_word_boundary_rule

    keyword_word_boundary_rule(ctx, res, "R20.8")

    # ---- R20.9 the try-block repair looks for the line where the block de-indents; comment and blank lines are skipped
    # whatever their indentation, so both classifications must look at the STRIPPED line
    fmd = idx.need_func("rope.contrib.fixsyntax._Commenter._find_matching_deindent")
    stripped_names = set()
    for x in walk_local(fmd.node):
        if isinstance(x, ast.Assign) and isinstance(x.value, ast.Call) and call_name(x.value) in ("strip", "lstrip") \
                and len(x.targets) == 1 and isinstance(x.targets[0], ast.Name):
            stripped_names.add(x.targets[0].id)

    def _is_stripped(e):
        return (isinstance(e, ast.Call) and call_name(e) in ("strip", "lstrip")) or (isinstance(e, ast.Name) and e.id in stripped_names)

    n9 = 0
    for x in walk_local(fmd.node):
        if isinstance(x, ast.Call) and call_name(x) == "startswith" and isinstance(x.func, ast.Attribute) and x.args \
                and isinstance(x.args[0], ast.Constant) and x.args[0].value == "#":
            n9 += 1
            ok = _is_stripped(x.func.value)
            res.add("R20.9", f"_find_matching_deindent|comment-test#{n9}", ok, f"{fmd.unit.rel}:{x.lineno}",
                    "comment lines are recognised on the stripped line" if ok else
                    f"`{ast.unparse(x)}` tests the raw line: an INDENTED comment inside the try body is no longer skipped, is taken for the "
                    "de-indent, a `finally: pass` is inserted in front of it and the repaired source still does not parse", function=fmd.qualname)
    res.floor("R20.9", "comment tests in _find_matching_deindent", n9, 1)

    # ---- R20.10 the repaired source and the original differ in length; go-to-definition maps the cursor through a ledger of
    # per-line length differences.  Every edit of the line list books exactly its length change, BEFORE the line is replaced,
    # and the mapping sums the lines strictly before the cursor's line.
    cm = idx.need_class("rope.contrib.fixsyntax._Commenter")

    def linear(e):
        """expression over len(<text>) terms and integers -> {term: coefficient}; None when it is anything else"""
        if isinstance(e, ast.Constant) and isinstance(e.value, int):
            return {"1": e.value}
        if isinstance(e, ast.Call) and call_name(e) == "len" and len(e.args) == 1:
            return {"len(" + ast.unparse(e.args[0]) + ")": 1}
        if isinstance(e, ast.BinOp) and isinstance(e.op, (ast.Add, ast.Sub)):
            a, b = linear(e.left), linear(e.right)
            if a is None or b is None:
                return None
            out = dict(a)
            for k, v in b.items():
                out[k] = out.get(k, 0) + (v if isinstance(e.op, ast.Add) else -v)
            return {k: v for k, v in out.items() if v}
        return None

    seps = {c.func.value.value for f in idx.functions.values() if f.unit.modname == "rope.contrib.fixsyntax" for c in calls_in(f.node)
            if isinstance(c.func, ast.Attribute) and c.func.attr == "join" and isinstance(c.func.value, ast.Constant) and isinstance(c.func.value.value, str)
            and "lines" in ast.unparse(c)}
    if len(seps) != 1:
        raise AnalysisError("anchor=fixsyntax: the separator the repaired lines are joined with not found")
    sep = seps.pop()
    n10 = 0
    for mname, m in sorted(cm.methods.items()):
        pn = param_names(m.node)
        writes = [x for x in walk_local(m.node) if (isinstance(x, ast.Assign) and any(isinstance(t, ast.Subscript) and is_self_attr(t.value, "lines") for t in x.targets))
                  or (isinstance(x, ast.Expr) and isinstance(x.value, ast.Call) and isinstance(x.value.func, ast.Attribute)
                      and x.value.func.attr in ("insert", "append", "pop", "remove") and is_self_attr(x.value.func.value, "lines"))]
        if not writes or mname == "__init__":
            continue
        books = [x for x in walk_local(m.node) if isinstance(x, ast.AugAssign) and isinstance(x.op, ast.Add) and isinstance(x.target, ast.Subscript)
                 and is_self_attr(x.target.value, "diffs")]
        for w in writes:
            n10 += 1
            if isinstance(w, ast.Assign):
                tgt = next(t for t in w.targets if isinstance(t, ast.Subscript))
                want = {"len(" + ast.unparse(w.value) + ")": 1, "len(" + ast.unparse(tgt) + ")": -1}
                desc = "len(new line) - len(old line)"
            elif w.value.func.attr == "insert":
                want = {"len(" + ast.unparse(w.value.args[1]) + ")": 1, "1": len(sep)}
                desc = f"len(inserted line) + {len(sep)} (the joining {sep!r})"
            else:
                want, desc = None, "the removed text"
            before = [b for b in books if b.lineno < w.lineno]
            got = linear(before[-1].value) if before else None
            ok = want is not None and got == want
            res.add("R20.10", f"_Commenter.{mname}|ledger", ok, f"{m.unit.rel}:{w.lineno}",
                    f"the edit of the line list books {desc} before the line is replaced" if ok else
                    (f"the edit of the line list at line {w.lineno} books `{ast.unparse(before[-1].value)}` instead of {desc}" if before else
                     f"the edit of the line list at line {w.lineno} is not booked in the offset ledger (or only after the old line is gone)")
                    + ": offsets behind the repair are mapped to the wrong character of the repaired source, so go-to-definition and completion after a repaired "
                    "line look at a different name", function=m.qualname)
    res.floor("R20.10", "edits of the repaired line list", n10, 2)
    to = cm.methods.get("transferred_offset")
    if to is None:
        raise AnalysisError("anchor=_Commenter.transferred_offset missing")
    line_vars = {t.id for x in walk_local(to.node) if isinstance(x, ast.Assign) and isinstance(x.value, ast.Call) and call_name(x.value) == "count"
                 and x.value.args and isinstance(x.value.args[0], ast.Constant) and x.value.args[0].value == sep
                 and len(x.value.args) == 3 and isinstance(x.value.args[1], ast.Constant) and x.value.args[1].value == 0
                 for t in x.targets if isinstance(t, ast.Name)}
    slices = [x for x in walk_local(to.node) if isinstance(x, ast.Subscript) and is_self_attr(x.value, "diffs") and isinstance(x.slice, ast.Slice)]
    if len(slices) != 1 or not line_vars:
        raise AnalysisError("anchor=_Commenter.transferred_offset: `sum(self.diffs[:line])` with line = code.count(sep, 0, offset) not found")
    sl = slices[0].slice
    ok = sl.lower is None and isinstance(sl.upper, ast.Name) and sl.upper.id in line_vars and sl.step is None
    res.add("R20.10", "_Commenter.transferred_offset|lines-before", ok, f"{to.unit.rel}:{slices[0].lineno}",
            "an offset is shifted by the length changes of the lines strictly before its own line" if ok else
            f"an offset is shifted by `{ast.unparse(slices[0])}`: not exactly the lines before the offset's own line (0-based index = number of {sep!r} before it)",
            function=to.qualname)

    # ---- R20.11 (=R01.4) go-to-definition on a word preceded by ',' or '(' and followed by '=': a call keyword is answered
    # in the keyword branch, the last target of a tuple assignment still reaches the ordinary name evaluation
    from .c01 import call_keyword_rule

    call_keyword_rule(ctx, res, "R20.11")

    # ---- R20.12 the scope a NAME AT AN OFFSET is evaluated in is found by offset.  A line does not identify a scope: two
    # comprehensions can share a line, and a continuation line may be indented less than the `def` it belongs to (the
    # line-based finder goes by the indentation of the line it is given).
    scope_by_offset_rule(ctx, res, "R20.12")


def scope_by_offset_rule(ctx, res, rule: str) -> None:
    idx = ctx.idx
    g = idx.need_func("rope.base.evaluate.ScopeNameFinder.get_primary_and_pyname_at")
    off = next((p for p in g.call_params() if "offset" in p), None)
    evals = [c for c in calls_in(g.node) if call_name(c).startswith("eval_str") and c.args]
    if off is None or not evals:
        raise AnalysisError("anchor=get_primary_and_pyname_at: offset parameter / generic evaluation not found")
    line_vars = {t.id for x in walk_local(g.node) if isinstance(x, ast.Assign) and isinstance(x.value, ast.Call)
                 and call_name(x.value) in ("get_line_number", "count") for t in x.targets if isinstance(t, ast.Name)}
    n = 0
    for c in evals:
        sc = c.args[0]
        defs = [x.value for x in walk_local(g.node) if isinstance(x, ast.Assign) and isinstance(sc, ast.Name)
                and any(isinstance(t, ast.Name) and t.id == sc.id for t in x.targets)] if isinstance(sc, ast.Name) else [sc]
        for d in defs:
            if not isinstance(d, ast.Call):
                continue
            n += 1
            names = {y.id for a in list(d.args) + [k.value for k in d.keywords] for y in ast.walk(a) if isinstance(y, ast.Name)}
            by_offset = off in names
            by_line = bool(names & line_vars) and not by_offset
            res.add(rule, f"get_primary_and_pyname_at|scope-by-offset#{n}", by_offset, f"{g.unit.rel}:{d.lineno}",
                    "the scope in which the name is evaluated is looked up by the offset" if by_offset else
                    f"the scope in which the name is evaluated is looked up with `{ast.unparse(d)}`" + (", by LINE" if by_line else "")
                    + ": a name on a continuation line indented less than its `def`, or in one of two comprehensions on the same line, is evaluated "
                    "in the wrong scope -- go-to-definition answers nothing (or another binding) for a parameter or local", function=g.qualname)
    res.floor(rule, "scope lookups feeding the name evaluation", n, 1)


def check(ctx, res) -> None:
    _check_body(ctx, res)
    from .common import identifier_char_rule

    _dot_is_looked_at_rule(ctx, res)
    _prefix_matches_its_start_rule(ctx, res)
    identifier_char_rule(ctx, res, "R20.13", ("rope.contrib.codeassist", "rope.contrib.fixsyntax", "rope.contrib.findit", "rope.base.worder"))
    from .c02 import decorators_above_the_statement_rule, header_expression_scope_rule, comprehension_iterable_scope_rule

    header_expression_scope_rule(ctx, res, "R20.17")
    comprehension_iterable_scope_rule(ctx, res, "R20.17")
    decorators_above_the_statement_rule(ctx, res, "R20.17")
    from .common import line_model_rule as _lm

    _lm(ctx, res, "R20.16", ('rope.contrib.codeassist', 'rope.contrib.fixsyntax', 'rope.contrib.findit', 'rope.base.worder', 'rope.base.evaluate'))
    _placeholder_keeps_the_depth_rule(ctx, res)
    _line_numbers_are_one_based_rule(ctx, res)
    _typed_offsets_are_transferred_rule(ctx, res)
    _callee_is_a_function_rule(ctx, res)
    from .common import clamped_offset_rule as _co

    _co(ctx, res, "R20.19")
    from .common import bounded_scan_rule as _bs

    _bs(ctx, res, "R20.18")


def _dot_is_looked_at_rule(ctx, res) -> None:
    """R20.14: completion splits the text before the cursor into (object expression, typed prefix).  An object expression
    exists only if an attribute dot stands between it and the prefix.  Every `return` of `get_splitted_primary_before`
    whose first component is not the empty string is reached only along edges on which some character of the code was
    compared with "." and found equal -- the position taken for the dot is looked at, not assumed.  (After `foo ` or
    `len(fo) ` the last non-blank character before the cursor is the end of the previous expression.)"""
    idx = ctx.idx
    f = idx.need_func("rope.base.worder._RealFinder.get_splitted_primary_before")
    from . import common as _common
    cfg = CFG(_common.inlined(idx, f))  # (an arm of the function may have been moved into a private method)
    dot_edges = []
    for t in cfg.nodes:
        if t.kind == "test" and isinstance(t.ast, ast.Compare) and len(t.ast.ops) == 1 and isinstance(t.ast.ops[0], (ast.Eq, ast.NotEq)) \
                and any(isinstance(x, ast.Constant) and x.value == "." for x in (t.ast.left, t.ast.comparators[0])) \
                and any(isinstance(x, ast.Subscript) for x in (t.ast.left, t.ast.comparators[0])):
            want = "true" if isinstance(t.ast.ops[0], ast.Eq) else "false"
            dot_edges += [(t.id, b, lab) for b, lab in cfg.succ[t.id] if lab == want]
    n = 0
    for nd in cfg.nodes:
        st = nd.ast
        if nd.kind != "stmt" or not isinstance(st, ast.Return) or not isinstance(st.value, ast.Tuple) or not st.value.elts:
            continue
        first = st.value.elts[0]
        if isinstance(first, ast.Constant) and first.value == "":
            continue
        n += 1
        ok = nd.id not in cfg.reachable(cfg.entry.id, avoid_edges=dot_edges)
        res.add("R20.14", f"get_splitted_primary_before|object-expression-only-behind-a-dot#{n}", ok, f"{f.unit.rel}:{st.lineno}",
                "an object expression is returned only where a character of the code was found to be the dot" if ok else
                f"`{ast.unparse(st)[:70]}` can be reached without any test that the character taken for the attribute dot IS a dot: with the cursor after `foo ` the split is "
                "('fo', '') -- completion lists the attributes of another variable `fo`, or nothing -- and after `len(fo) ` or `int(foo)` code assist raises "
                "BadIdentifierError", function=f.qualname)
    res.floor("R20.14", "splits with an object expression", n, 1)


def _prefix_matches_its_start_rule(ctx, res) -> None:
    """R20.15: the split before the cursor returns (expression, typed prefix, offset where the prefix starts); completion
    filters the names with the prefix and replaces the text from that offset.  The two must describe the same stretch:
    the prefix is `raw[<start>:offset]` for the very value of <start> that is returned (or "" together with `offset`).  A
    prefix sliced BEFORE the start was last assigned belongs to another stretch: after `obj. ` the blank is taken for the
    typed prefix and no attribute is proposed."""
    from . import common as _common
    idx = ctx.idx
    f = idx.need_func("rope.base.worder._RealFinder.get_splitted_primary_before")
    node = _common.inlined(idx, f)
    cfg = CFG(node)
    n = 0
    for nd in cfg.nodes:
        st = nd.ast
        if nd.kind != "stmt" or not isinstance(st, ast.Return) or not isinstance(st.value, ast.Tuple) or len(st.value.elts) != 3:
            continue
        prefix, start = st.value.elts[1], st.value.elts[2]
        if isinstance(prefix, ast.Constant):
            continue
        n += 1
        bad = None
        # where is the prefix computed?
        def_nodes = [nd]
        sl = prefix
        if isinstance(prefix, ast.Name):
            defs = [d for d in cfg.nodes if d.kind == "stmt" and isinstance(d.ast, ast.Assign) and any(isinstance(t, ast.Name) and t.id == prefix.id for t in d.ast.targets)]
            if len(defs) != 1:
                res.undecided("R20.15", f"get_splitted_primary_before|prefix-matches-start#{n}", f"{f.unit.rel}:{st.lineno}", "the prefix is bound more than once")
                continue
            def_nodes, sl = defs, defs[0].ast.value
        if not (isinstance(sl, ast.Subscript) and isinstance(sl.slice, ast.Slice) and sl.slice.lower is not None):
            res.undecided("R20.15", f"get_splitted_primary_before|prefix-matches-start#{n}", f"{f.unit.rel}:{st.lineno}", "the prefix is not a slice from a start offset")
            continue
        low = sl.slice.lower
        if norm(low) != norm(start):
            bad = f"the prefix is cut from `{ast.unparse(low)}` but `{ast.unparse(start)}` is returned as its start"
        elif isinstance(low, ast.Name) and def_nodes[0] is not nd:
            writes = [w for w in cfg.nodes if w.kind == "stmt" and isinstance(w.ast, (ast.Assign, ast.AugAssign)) and w is not def_nodes[0]
                      and any(isinstance(t, ast.Name) and t.id == low.id for t in (w.ast.targets if isinstance(w.ast, ast.Assign) else [w.ast.target]))]
            for w in writes:
                if cfg.exists_path(def_nodes[0].id, w.id) and cfg.exists_path(w.id, nd.id):
                    bad = f"the prefix `{ast.unparse(def_nodes[0].ast)[:50]}` is cut before `{ast.unparse(w.ast)}` changes the start that is returned"
        res.add("R20.15", f"get_splitted_primary_before|prefix-matches-start#{n}", bad is None, f"{f.unit.rel}:{st.lineno}",
                "the returned prefix is the text from the returned start to the cursor" if bad is None else
                f"{bad}: with the cursor after `obj. ` the split is ('obj', ' ', offset) -- completion filters the attributes with the prefix ' ' and proposes nothing, "
                "although every attribute is visible there", function=f.qualname)
    res.floor("R20.15", "splits with a computed prefix", n, 1)


def _placeholder_keeps_the_depth_rule(ctx, res) -> None:
    """R20.20: completion on an incomplete line works on a repaired copy of the module in which the statement at the cursor is replaced by
    `pass`.  The `pass` stands in the BLOCK the statement stands in -- at the statement's own indentation, or one level inside the
    header on the line above (`if x:` + cursor line) -- otherwise the cursor leaves its function and the locals are not offered
    (or the repaired module does not parse).  The previous non-blank physical line says nothing about the block when it is the tail
    of a triple-quoted string, a commented-out line in column 0 or a header with a trailing comment.  In the repair every store into
    the indentation of the placeholder is the statement's own indentation or `<indentation of the header> + <a positive constant>`:
    never the bare indentation of the line above."""
    idx = ctx.idx
    f = idx.need_func("rope.contrib.fixsyntax._Commenter.comment")
    # the variable that indents the placeholder: `" " * <v> + "pass"`
    vs = {y.id for x in walk_local(f.node) if isinstance(x, ast.BinOp) and isinstance(x.op, ast.Add) and isinstance(x.right, ast.Constant) and x.right.value == "pass"
          for y in ast.walk(x.left) if isinstance(y, ast.Name)}
    if len(vs) != 1:
        raise AnalysisError(f"anchor=_Commenter.comment: the indentation of the `pass` placeholder not found ({sorted(vs)})")
    v = next(iter(vs))
    stores = [x for x in walk_local(f.node) if isinstance(x, ast.Assign) and any(isinstance(t, ast.Name) and t.id == v for t in x.targets)]
    if not stores:
        raise AnalysisError("anchor=_Commenter.comment: no store into the placeholder's indentation")
    first = min(stores, key=lambda x: x.lineno)
    n = 0
    for x in sorted(stores, key=lambda x: x.lineno):
        n += 1
        plus = isinstance(x.value, ast.BinOp) and isinstance(x.value.op, ast.Add) and any(
            isinstance(c, ast.Constant) and isinstance(c.value, int) and c.value > 0 for c in (x.value.left, x.value.right))
        ok = x is first or plus
        res.add("R20.20", f"_Commenter.comment|placeholder-keeps-the-depth#{n}", ok, f"{f.unit.rel}:{x.lineno}",
                "the placeholder is indented like the statement it replaces, or one level inside the header above it" if ok else
                f"`{ast.unparse(x)[:70]}` moves the placeholder to the indentation of the line ABOVE: when that line is the tail of a triple-quoted string, commented-out code in column 0 "
                "or `if x:  # note`, the incomplete statement and the rest of its block become a module-level `pass` -- the function's locals with the typed prefix are not offered, or "
                "the repaired module does not parse and code_assist raises", function=f.qualname)
    res.floor("R20.20", "stores into the placeholder's indentation", n, 2)


def _line_numbers_are_one_based_rule(ctx, res) -> None:
    """R20.21: rope's scopes are asked for a LINE NUMBER, counted from 1 (`get_inner_scope_for_line`, `get_line`, `logical_line_in`).  The number
    of line breaks in front of an offset (`code.count("\\n", 0, offset)`) is the zero-based index of the line: handed on as it is, the
    answer is the scope of the line ABOVE -- the body of a function that ends there.  In completion and definition lookup every line
    number computed by counting line breaks is incremented by one before it reaches one of those calls."""
    idx = ctx.idx
    n = 0
    SINKS = ("get_inner_scope_for_line", "get_line", "logical_line_in", "get_line_start", "get_line_end")
    for f in sorted(idx.functions.values(), key=lambda f: f.qualname):
        if f.unit.modname not in ("rope.contrib.fixsyntax", "rope.contrib.codeassist", "rope.contrib.findit"):
            continue
        counted = {}
        for x in ast.walk(f.node):
            if isinstance(x, ast.Assign) and len(x.targets) == 1 and isinstance(x.targets[0], ast.Name):
                v = x.value
                plus_one = isinstance(v, ast.BinOp) and isinstance(v.op, ast.Add) and any(isinstance(c, ast.Constant) and c.value == 1 for c in (v.left, v.right))
                core = (v.left if not (isinstance(v.left, ast.Constant)) else v.right) if isinstance(v, ast.BinOp) and isinstance(v.op, ast.Add) else v
                if isinstance(core, ast.Call) and call_name(core) == "count" and core.args and isinstance(core.args[0], ast.Constant) and core.args[0].value == "\n":
                    counted[x.targets[0].id] = (x, plus_one)
        # a line number read from a line table (`<lines>.get_line_number(offset)`) counts from one by construction: an instance that holds
        from_table = {x.targets[0].id for x in ast.walk(f.node) if isinstance(x, ast.Assign) and len(x.targets) == 1 and isinstance(x.targets[0], ast.Name)
                      and isinstance(x.value, ast.Call) and call_name(x.value) == "get_line_number"}
        if f.unit.modname == "rope.contrib.fixsyntax":
            for c in ast.walk(f.node):
                if isinstance(c, ast.Call) and call_name(c) in SINKS and c.args and isinstance(c.args[0], ast.Name) and c.args[0].id in from_table - set(counted):
                    n += 1
                    res.add("R20.21", f"{f.qualname.split('.', 2)[-1]}|line-number-from-a-line-table#{n}", True, f"{f.unit.rel}:{c.lineno}",
                            "the line number is read from a line table (counted from one)", function=f.qualname)
        if not counted:
            continue
        for c in ast.walk(f.node):
            if isinstance(c, ast.Call) and call_name(c) in SINKS and c.args and isinstance(c.args[0], ast.Name) and c.args[0].id in counted:
                n += 1
                st, ok = counted[c.args[0].id]
                res.add("R20.21", f"{f.qualname.split('.', 2)[-1]}|line-number-counts-from-one#{n}", ok, f"{f.unit.rel}:{st.lineno}",
                        "the counted line breaks are turned into a line number (+ 1)" if ok else
                        f"`{ast.unparse(st)}` is the zero-based index of the line and `{ast.unparse(c)[:60]}` takes a line NUMBER: the scope of the line above is answered -- with "
                        "`def f(abc): pass` right above an unfinished `print(abc.`, go-to-definition on `abc` shows the parameter of f instead of the module's variable", function=f.qualname)
    res.floor("R20.21", "line numbers obtained by counting line breaks", n, 1)


def _typed_offsets_are_transferred_rule(ctx, res) -> None:
    """R20.22: FixSyntax works with TWO texts: the code as typed (`self.code`) and the repaired code the module is parsed from (broken lines
    replaced by `pass`, shorter or longer than what was typed).  Offsets handed to its methods are offsets into the TYPED code.  An offset
    reaches a table of the repaired module -- its line table, its scopes, `eval_location(pymodule, ...)` -- only after
    `transferred_offset(...)`; what is computed from the typed offset directly is computed on `self.code`.  Used untranslated on the
    repaired module, an offset behind a replaced line lands on a later line, in another scope."""
    from . import common
    idx = ctx.idx
    cls = idx.need_class("rope.contrib.fixsyntax.FixSyntax")
    n = 0
    for m in sorted(cls.methods.values(), key=lambda m: m.name):
        ps = [p for p in m.call_params() if "offset" in p]
        if not ps or m.name.startswith("_"):
            continue
        node = common.inlined(idx, m)
        # names that hold the repaired module
        mods = {t.id for a in ast.walk(node) if isinstance(a, ast.Assign) and isinstance(a.value, ast.Call) and is_self_attr(a.value.func) and a.value.func.attr == "get_pymodule"
                for t in a.targets if isinstance(t, ast.Name)}
        if not mods:
            continue
        rebound = {t.id for a in ast.walk(node) if isinstance(a, ast.Assign) for t in a.targets if isinstance(t, ast.Name)}
        typed = {p for p in ps if p not in rebound}

        def root(e):
            while isinstance(e, (ast.Attribute, ast.Call, ast.Subscript)):
                e = e.func if isinstance(e, ast.Call) else e.value
            return e

        k = 0
        for c in ast.walk(node):
            if not isinstance(c, ast.Call):
                continue
            raw = [a for a in c.args if isinstance(a, ast.Name) and a.id in typed]
            if not raw:
                continue
            r = root(c.func)
            on_module = (isinstance(r, ast.Name) and r.id in mods) or any(isinstance(a, ast.Name) and a.id in mods for a in c.args)
            if call_name(c) == "transferred_offset":
                n += 1
                k += 1
                res.add("R20.22", f"FixSyntax.{m.name}|typed-offset-is-transferred#{k}", True, f"{m.unit.rel}:{c.lineno}",
                        "the typed offset is translated into the repaired code", function=m.qualname)
            elif on_module:
                n += 1
                k += 1
                res.fail("R20.22", f"FixSyntax.{m.name}|typed-offset-on-the-repaired-module#{k}", f"{m.unit.rel}:{c.lineno}",
                         f"`{ast.unparse(c)[:70]}` uses an offset into the code AS TYPED with a table of the REPAIRED module: a broken line was replaced by `pass`, so an "
                         "offset behind column indent+4 of that line lies on a LATER line of the repaired code -- in another function, the parameter of that function is shown as the "
                         "definition (and get_doc / get_calltip answer for it)", function=m.qualname)
    res.floor("R20.22", "uses of a typed offset in FixSyntax", n, 1)


def _callee_is_a_function_rule(ctx, res) -> None:
    """R20.23: completion must return, not raise, at every cursor position -- also inside the parentheses of a call whose callee
    is a class with `__init__ = make_init()` or an object with `__call__ = None`.  In the completion module every
    `<v>.get_param_names(...)` whose receiver is a local bound (in the function, private steps read in place, or in the
    private step that returns it) to the result of `.get_object()` -- an inferred object of unknown kind -- stands under
    `isinstance(<v>, <...Function>)`: only function objects have parameter names."""
    idx = ctx.idx
    from . import common
    unit = idx.units["rope.contrib.codeassist"]
    fns = [f for f in idx.functions.values() if f.unit is unit]

    def yields_inferred(value: ast.AST, depth: int = 0) -> bool:
        for c in ast.walk(value):
            if not isinstance(c, ast.Call):
                continue
            if call_name(c) == "get_object":
                return True
            if depth < 2:
                for g in fns:
                    if g.name == call_name(c) and g.name.startswith("_") and any(call_name(x) == "get_object" for x in calls_in(g.node)):
                        return True
        return False

    n = 0
    for f in fns:
        if not any(call_name(c) == "get_param_names" for c in calls_in(f.node)):
            continue
        node = common.inlined(idx, f)
        cfg = CFG(node)
        k = 0
        for c in calls_in(node):
            if not (call_name(c) == "get_param_names" and isinstance(c.func, ast.Attribute) and isinstance(c.func.value, ast.Name)):
                continue
            v = c.func.value.id
            if v == "self" or not any(isinstance(a, ast.Assign) and any(isinstance(t, ast.Name) and t.id == v for t in a.targets) and yields_inferred(a.value)
                                      for a in walk_local(node)):
                continue
            k += 1
            n += 1
            at = cfg.node_containing(c)
            ok = bool(at)
            for nd in at:
                gs = cfg.guards(nd.id)
                if not any(pol and isinstance(t, ast.Call) and call_name(t) == "isinstance" and len(t.args) == 2 and isinstance(t.args[0], ast.Name) and t.args[0].id == v
                           and any(ast.unparse(x).endswith("Function") for x in ([t.args[1]] if not isinstance(t.args[1], ast.Tuple) else t.args[1].elts)) for t, pol in gs):
                    ok = False
            if not ok:
                # the test may live in the private step that hands the object back: every return of it that is not None stands under the test there
                binds = [a.value for a in walk_local(node) if isinstance(a, ast.Assign) and any(isinstance(t, ast.Name) and t.id == v for t in a.targets)]
                steps = [g for b in binds if isinstance(b, ast.Call) for g in fns if g.name == call_name(b) and g.name.startswith("_")]
                if steps and len(steps) == len(binds):
                    ok = True
                    for g in steps:
                        gc = CFG(g.node)
                        for r in walk_local(g.node):
                            if isinstance(r, ast.Return) and r.value is not None and not (isinstance(r.value, ast.Constant) and r.value.value is None):
                                held = [t for nd in gc.node_containing(r.value) for t, pol in gc.guards(nd.id) if pol and isinstance(t, ast.Call) and call_name(t) == "isinstance"
                                        and len(t.args) == 2 and ast.unparse(t.args[0]) == ast.unparse(r.value) and "Function" in ast.unparse(t.args[1])]
                                ok = ok and bool(held)
            res.add("R20.23", f"{f.qualname.split('.', 2)[-1]}|parameter-names-of-a-function-only#{k}", ok, f"{unit.rel}:{c.lineno}",
                    f"`{v}` comes from get_object() and its parameter names are read only under isinstance({v}, <function class>)" if ok else
                    f"`{v}.get_param_names(...)` is reached without a test that `{v}` is a function object: `{v}` is whatever the name is bound to (`__init__ = make_init()`, "
                    "`__call__ = None`), and completion inside the parentheses of such a call raises AttributeError instead of returning proposals", function=f.qualname)
    res.floor("R20.23", "parameter names read from an inferred object", n, 1)
