"""C03 -- extract preserves behaviour or is refused (VGC rules R03.1-R03.22)."""
from __future__ import annotations

import ast
from typing import Dict, List, Optional, Set

from .. import vgc as vgc_mod
from ..cfg import CFG
from ..core import AnalysisError, call_name, calls_in, dotted, is_self_attr, norm, param_names, walk_local
from ..grammar import BINDS, CONDITIONAL, G, GENERATOR, LOOPS, SCOPES, TARGET_FIELDS

EXPLANATION = (
    "Extract computes parameters/returns from a flow summary collected by grammar visitors.  R03.1: every construct "
    "that binds a name in the current scope flows to the collector's write-recording primitive.  R03.2/R03.3: every "
    "conditionally executed / loop child list is traversed inside the collector's conditional / loop context manager "
    "(read from the With statements enclosing the traversal in each handler).  R03.7: those context managers restore "
    "the state they toggle to its previous value (or count), because handlers nest.  R03.4: the return/yield counter has "
    "handlers for every generator-making constructor and for Return.  R03.8: regions containing async statements are "
    "refused or emitted into an `async def`.  R03.6: the suite walker used for placing "
    "extracted definitions wraps every statement-list field of every compound statement in a Suite.  The oracle is "
    "the running interpreter's grammar plus the binding/conditional/loop/generator tables.  The set algebra on the "
    "summary, similar-code replacement and placement arithmetic are not decided."
    ' R03.14: after every filing of an in-region write (conditional or not) the loop-carried check is passed.'
)
EXPLANATION += ' R03.16: identifier characters.  R03.17: the loop-carried test sees reads that precede the region in the enclosing loop; loop_depth is lowered as it was raised.'
EXPLANATION += ' R03.15: a function that remembers its answer under a key reads, in the computation of the remembered value, nothing of its parameters that the key does not contain (followed into the helpers it calls).'
EXPLANATION += " R03.18: in the anchored modules and the shared text utilities no source text is cut with str.splitlines() (it breaks at form feed, \x1c-\x1e, \x85, U+2028/9; rope's and the ast's line numbers count \n only)."
EXPLANATION += " R03.19: program text that is moved is not whitespace-normalised (the result of `\" \".join(text.split())` is only ever compared, never emitted)."
EXPLANATION += " R03.20: the return-is-last test behind the refusal does not look through a try statement that has handlers."
EXPLANATION += " R03.21: no `.add(*names)` in the extraction code (set.add / OrderedSet.add take one key: `global a, b` in the host made every extraction a TypeError)."
EXPLANATION += " R03.23: the collector's handler of a compound statement hands every node-valued field of the statement on to the visitor (summaries are call-site sensitive)."
EXPLANATION += " R03.22: a write after the region enters the set of certain later writes only under the negation of the flag set for conditional blocks that reach past the region."
ASSUMPTIONS = [
    "the break/continue finder lacking AsyncFor and the missing scope cuts of the return counter only cause over-refusal, which the property allows: recorded as exceptions, not armed (R03.5 arms only the under-refusal direction: else clauses)",
    "IfExp/BoolOp conditional evaluation matters only with a walrus inside: not armed",
]

COLLECTOR = "rope.refactor.extract._FunctionInformationCollector"
COUNTER = "rope.refactor.usefunction._ReturnOrYieldFinder"
SUITES = "rope.refactor.suites._SuiteWalker"
WRITE_SINKS = {"[written]", "[maybe_written]"}


def _ctx_managers(idx, cls_q: str):
    """context-manager methods of the collector: name -> attribute they toggle"""
    out = {}
    c = idx.classes[cls_q]
    for name, m in c.methods.items():
        if any(d.endswith("contextmanager") for d in m.decorator_names()):
            attrs = {t.attr for n in walk_local(m.node) if isinstance(n, (ast.Assign, ast.AugAssign))
                     for t in (n.targets if isinstance(n, ast.Assign) else [n.target]) if is_self_attr(t)}
            out[name] = attrs
    return out


def yield_counter_rule(ctx, res, rule: str) -> None:
    """Shared with C17 (R17.4)."""
    idx = ctx.idx
    v = vgc_mod.get(ctx)
    idx.need_class(COUNTER)
    for c in vgc_mod.G.ctors if False else (["Return"] + [g for g in GENERATOR if g in G.ctors]):
        h = v.handler(COUNTER, c)
        counts = False
        if h is not None:
            counts = any(isinstance(n, ast.AugAssign) and is_self_attr(n.target) for n in walk_local(h.node)) or \
                any(is_self_attr(x.func) for x in calls_in(h.node))
        res.add(rule, f"_ReturnOrYieldFinder|{c}", h is not None and counts, h.where if h else idx.classes[COUNTER].where,
                f"{c} is counted" if h is not None and counts else
                f"_ReturnOrYieldFinder has no counting handler for {c}: a region/function containing it is not recognised as "
                + ("a generator" if c != "Return" else "returning") + ", so extract / use-function accept code they must refuse "
                "(the extracted call site no longer yields)")


def _check_body(ctx, res) -> None:
    idx = ctx.idx
    v = vgc_mod.get(ctx)
    coll = idx.need_class(COLLECTOR)
    stmts = list(G.sums["stmt"])
    r = v.reach(COLLECTOR, stmts)
    res.analysed["collector_pairs"] = len(r.pairs)
    written: Set[str] = set()
    for (vv, c) in r.pairs:
        for e in r.binds.get((vv, c), []):
            if e.target in WRITE_SINKS and vv == COLLECTOR:
                _, _, idents = v.resolve_paths(c, e.paths)
                written |= idents
    res.analysed["written_identifier_fields"] = sorted(written)
    if "Name.id" not in written or "FunctionDef.name" not in written:
        raise AnalysisError("anchor=collector write primitive: Name.id / FunctionDef.name do not flow to written/maybe_written (engine lost the idiom)")

    # ---- R03.1
    n = 0
    for c, fld, kind in BINDS:
        if kind not in ("def", "class", "import", "except", "match") or c not in G.ctors or G.ctors[c].field(fld).is_node:
            continue
        n += 1
        key = f"{c}.{fld}"
        ok = key in written or (c == "alias" and "alias.asname" in written)
        h = v.handler(COLLECTOR, c) or (v.handler(COLLECTOR, "Import") if c == "alias" else None)
        res.add("R03.1", key, ok, h.where if h else coll.where,
                f"{key} is recorded as a write" if ok else
                f"{key} ({kind}) binds a local name but the flow collector never records it as written: a region reading that name gets no "
                "parameter for it (or a region binding it returns nothing), so the extracted code raises NameError / loses the value")
    for c, fld in TARGET_FIELDS:
        if c not in G.ctors or c == "Delete":
            continue
        n += 1
        by = r.reached_by(c, fld)
        ok = COLLECTOR in by
        if not ok:
            for e in r.binds.get((COLLECTOR, c), []):
                if e.target in WRITE_SINKS and any(p.startswith(fld) for p in e.paths):
                    ok = True
        res.add("R03.1", f"{c}.{fld}[Store]", ok, (v.handler(COLLECTOR, c) or coll).where,
                f"targets in {c}.{fld} reach the Name handler that records writes" if ok else
                f"assignment targets in {c}.{fld} are never visited by the collector: writes through them are invisible to extract")
    res.floor("R03.1", "binding oracle entries", n, 14)

    # ---- R03.2 / R03.3
    mgrs = _ctx_managers(idx, COLLECTOR)
    cond_m = {m for m, attrs in mgrs.items() if any("conditional" in a for a in attrs)}
    loop_m = {m for m, attrs in mgrs.items() if any("loop" in a for a in attrs)}
    if not cond_m or not loop_m:
        raise AnalysisError(f"anchor=collector context managers (conditional/loop) not found: {mgrs}")
    res.analysed["context_managers"] = {"conditional": sorted(cond_m), "loop": sorted(loop_m)}

    # ---- R03.7 context managers nest (handlers nest: an If inside an If): the state they toggle must be restored to its
    # previous value (save/restore) or be a counter (+=/-=), never reset to a constant
    for mname in sorted(cond_m | loop_m):
        m = coll.methods[mname]
        for attr in sorted(mgrs[mname]):
            stores = [n for n in walk_local(m.node) if isinstance(n, (ast.Assign, ast.AugAssign))
                      and any(is_self_attr(t, attr) or (isinstance(t, ast.Tuple) and any(is_self_attr(e, attr) for e in t.elts))
                              for t in (n.targets if isinstance(n, ast.Assign) else [n.target]))]
            fin = [n for t in walk_local(m.node) if isinstance(t, ast.Try) for s_ in t.finalbody for n in [s_, *ast.walk(s_)] if n in stores]
            ok = None
            if fin and isinstance(fin[-1], ast.Assign) and isinstance(fin[-1].targets[0], ast.Tuple):
                # `self.a, self.b = saved` with `saved = (self.a, self.b)` before the block (or `= (was_a, was_b)`): element by element
                f0 = fin[-1]
                tgt = f0.targets[0]
                pos = next((i for i, e in enumerate(tgt.elts) if is_self_attr(e, attr)), None)
                val = f0.value
                if isinstance(val, ast.Name):
                    defs = [n.value for n in walk_local(m.node) if isinstance(n, ast.Assign) and len(n.targets) == 1
                            and isinstance(n.targets[0], ast.Name) and n.targets[0].id == val.id]
                    val = defs[0] if len(defs) == 1 else None
                if pos is not None and isinstance(val, ast.Tuple) and len(val.elts) == len(tgt.elts):
                    e = val.elts[pos]
                    if isinstance(e, ast.Constant):
                        ok = False
                    elif is_self_attr(e, attr):
                        ok = True
                    elif isinstance(e, ast.Name):
                        ok = any(isinstance(n, ast.Assign) and isinstance(n.targets[0], ast.Name) and n.targets[0].id == e.id and is_self_attr(n.value, attr)
                                 for n in walk_local(m.node))
            elif fin:
                f0 = fin[-1]
                if isinstance(f0, ast.AugAssign):
                    ok = any(isinstance(s_, ast.AugAssign) and type(s_.op) is not type(f0.op) for s_ in stores)
                elif isinstance(f0.value, ast.Constant):
                    ok = False
                elif isinstance(f0.value, ast.Name):
                    saved = [n for n in walk_local(m.node) if isinstance(n, ast.Assign) and isinstance(n.targets[0], ast.Name)
                             and n.targets[0].id == f0.value.id and is_self_attr(n.value, attr)]
                    ok = bool(saved)
            res.add("R03.7", f"{mname}|{attr}", ok, m.where,
                    f"{mname} restores self.{attr} to its previous value on exit (nesting-safe)" if ok else
                    f"{mname} resets self.{attr} to a constant on exit: handlers nest (an if inside an if), so after an inner block the rest of the "
                    "enclosing block is analysed with the flag cleared -- a name assigned there counts as definitely written and extract returns an unbound local")

    def field_ctx_ok(c: str, fields: List[str], need: Set[str]) -> Optional[List[str]]:
        """fields of c whose traversal is NOT inside one of the `need` context managers"""
        h = v.handler(COLLECTOR, c)
        if h is None:
            return fields
        bad = []
        s = v.summary(COLLECTOR, h)
        for f in fields:
            vis = [e for e in s.visits() if any(p == f or p.startswith(f + ".") or p == "*" for p in e.paths)]
            if not vis or any(not (e.ctx & need) for e in vis):
                bad.append(f)
        return bad

    by_ctor: Dict[str, List[str]] = {}
    for c, f in CONDITIONAL:
        if c in G.ctors:
            by_ctor.setdefault(c, []).append(f)
    for c, fields in by_ctor.items():
        bad = field_ctx_ok(c, fields, cond_m)
        h = v.handler(COLLECTOR, c)
        res.add("R03.2", c, not bad, h.where if h else coll.where,
                f"{c}: {fields} are traversed in conditional context" if not bad else
                f"{c}.{bad} execute conditionally but the collector traverses them outside its conditional context "
                f"({'no handler: generic traversal' if h is None else h.qualname}): a name assigned there counts as definitely written, so extract "
                "does not pass the previous value in and the extracted function can hit an unbound local")
    for c in LOOPS:
        if c not in G.ctors:
            continue
        bad = field_ctx_ok(c, ["body"], loop_m)
        h = v.handler(COLLECTOR, c)
        res.add("R03.3", c, not bad, h.where if h else coll.where,
                f"{c}.body is traversed in loop context" if not bad else
                f"{c}.body is a loop body but the collector traverses it outside its loop context: a value written in one iteration and read in the "
                "next is not recognised as flowing back into the region")

    # ---- R03.4
    yield_counter_rule(ctx, res, "R03.4")

    # ---- R03.5 a loop's else clause is not inside the loop: break/continue there belong to the ENCLOSING loop, so the
    # unmatched-break finder must visit orelse outside its loop count (statement order: += 1, body, -= 1, orelse)
    bf = idx.need_class("rope.refactor.extract._UnmatchedBreakOrContinueFinder")
    for hname in sorted({h.name for c in ("For", "While", "AsyncFor") if (h := v.handler(bf.qualname, c)) is not None}):
        h = bf.methods.get(hname) or idx.find_method(bf.qualname, hname)
        # follow one level of delegation (self.loop_encountered(node))
        target = h
        for call in calls_in(h.node):
            if is_self_attr(call.func) and idx.find_method(bf.qualname, call.func.attr) is not None:
                target = idx.find_method(bf.qualname, call.func.attr)
        order = []
        for st in target.node.body:
            for x in [st, *ast.walk(st)]:
                if isinstance(x, ast.AugAssign) and is_self_attr(x.target) and "loop" in x.target.attr:
                    order.append(("inc" if isinstance(x.op, ast.Add) else "dec", st.lineno))
            src = ast.unparse(st)
            if ".visit(" in src or "visit(" in src:
                if "orelse" in src:
                    order.append(("orelse", st.lineno))
                if ".body" in src:
                    order.append(("body", st.lineno))
        kinds = [k for k, _ in order]
        ok = None
        if "inc" in kinds and "dec" in kinds and "orelse" in kinds:
            i_inc, i_dec = kinds.index("inc"), kinds.index("dec")
            ok = all(not (i_inc < i < i_dec) for i, k in enumerate(kinds) if k == "orelse")
        res.add("R03.5", f"_UnmatchedBreakOrContinueFinder.{hname}", ok, target.where,
                "the loop's else clause is visited outside the loop count" if ok else
                "the unmatched break/continue finder visits a loop's else clause inside its loop count: `for ...: ... else: continue` extracted from an "
                "enclosing loop is accepted, and the new function contains `continue`/`break` outside any loop (the module no longer compiles)")

    # ---- R03.8 a region containing await / async for / async with can only live in an `async def`: either such regions
    # are refused on every interpreter version, or the emitter of the new function has an `async def` header path
    parts = idx.need_class("rope.refactor.extract._ExtractMethodParts")
    emits_async = any(isinstance(x, ast.Constant) and isinstance(x.value, str) and "async def" in x.value
                      for m in parts.methods.values() for x in ast.walk(m.node))
    chk = idx.need_func("rope.refactor.extract._ExceptionalConditionChecker.multi_line_conditions")
    from ..cfg import CFG as _CFG

    cfg = _CFG(chk.node)
    refuses_always = False
    for n in cfg.nodes:
        if n.kind == "stmt" and isinstance(n.ast, ast.Raise):
            gs = cfg.guards(n.id)
            if any(isinstance(t, ast.Call) and "AsyncStatementFinder" in ast.unparse(t) and pol for t, pol in gs):
                # refused only under an additional version test?
                refuses_always = not any(isinstance(t, ast.Call) and call_name(t) == "hasattr" for t, pol in gs)
    ok = emits_async or refuses_always
    res.add("R03.8", "extract|async-region", ok, parts.methods["_get_function_definition"].where,
            "regions with async statements are refused or emitted into an `async def`" if ok else
            "extract accepts a region containing `async for` / `async with` (the refusal is limited to interpreters without top-level await) but the "
            "new function's header is always a plain `def`: the rewritten module does not compile (SyntaxError: 'async for' outside async function)")

    # ---- R03.9 the names a region MAY write: the collector's write primitive files an in-region write under one of several
    # sets depending on `self.conditional`; every computation that decides what is passed back (returns) or re-declared
    # (global / nonlocal) must take the union of all of them -- leaving one out silently drops conditional writes.
    wv = idx.need_func(f"{COLLECTOR}._written_variable")
    from .common import inline_private_calls
    wv_node = inline_private_calls(idx, wv)  # the in-region part may live in a private helper
    wcfg = _CFG(wv_node)
    pname = param_names(wv.node)[1] if len(param_names(wv.node)) > 1 else None
    lparam = param_names(wv.node)[2] if len(param_names(wv.node)) > 2 else None

    def region_facts(gs):
        """(lower bound holds, upper bound holds) as implied by the guards: start <= line <= end, however it is written"""
        lo = hi = False
        for t, pol in gs:
            if not isinstance(t, ast.Compare):
                continue
            terms = [t.left] + list(t.comparators)
            for a, op, b in zip(terms, t.ops, terms[1:]):
                def kind(x):
                    return "start" if is_self_attr(x, "start") else "end" if is_self_attr(x, "end") else "line" if isinstance(x, ast.Name) and x.id == lparam else None
                ka, kb = kind(a), kind(b)
                if {ka, kb} == {"start", "line"}:
                    # normalise to  start OP' line
                    o = type(op) if ka == "start" else {ast.Lt: ast.Gt, ast.Gt: ast.Lt, ast.LtE: ast.GtE, ast.GtE: ast.LtE}.get(type(op))
                    if (o is ast.LtE and pol) or (o is ast.Gt and not pol):
                        lo = True
                if {ka, kb} == {"end", "line"}:
                    o = type(op) if ka == "line" else {ast.Lt: ast.Gt, ast.Gt: ast.Lt, ast.LtE: ast.GtE, ast.GtE: ast.LtE}.get(type(op))
                    if (o is ast.LtE and pol) or (o is ast.Gt and not pol):
                        hi = True
        return lo, hi

    region_sets: Set[str] = set()
    region_adds = []
    for n in wcfg.nodes:
        if n.kind != "stmt" or n.ast is None:
            continue
        for c in calls_in(n.ast):
            if isinstance(c.func, ast.Attribute) and c.func.attr == "add" and is_self_attr(c.func.value) and c.args \
                    and isinstance(c.args[0], ast.Name) and c.args[0].id == pname:
                gs = wcfg.guards(n.id)
                lo, hi = region_facts(gs)
                others = [t for t, pol in gs if not wcfg.is_named_condition(t) and not (
                    isinstance(t, ast.Compare) and any(is_self_attr(x, "start") or is_self_attr(x, "end") for x in ast.walk(t)))]
                if lo and hi and all(is_self_attr(t, "conditional") or (isinstance(t, ast.UnaryOp) and is_self_attr(t.operand, "conditional"))
                                     for t in others):
                    region_sets.add(c.func.value.attr)
                    region_adds.append((n, c.func.value.attr))
    if len(region_sets) < 2:
        raise AnalysisError(f"anchor=_written_variable: in-region write sets not recognised ({sorted(region_sets)})")
    res.analysed["R03.9_write_sets"] = sorted(region_sets)

    # ---- R03.14 a write inside the region that happens in a loop whose next iteration reads the name makes the name
    # "read afterwards" (it must be passed back) -- for conditional writes just as for unconditional ones: after EVERY
    # filing of an in-region write the loop-depth step is passed
    def loop_step(n) -> bool:
        if n.kind != "test" or n.ast is None:
            return False
        e = n.ast
        if isinstance(e, ast.Name) and wcfg.is_named_condition(e):  # `in_loop = self.loop_depth > 0` ... `if in_loop and ...`
            e = wcfg._single_definition(e.id)
        return any(is_self_attr(x, "loop_depth") for x in ast.walk(e))

    if not any(loop_step(n) for n in wcfg.nodes):
        raise AnalysisError("anchor=_written_variable: the loop-depth step that marks loop-carried names as read afterwards not found")
    for n, setname in region_adds:
        ok14 = wcfg.must_pass_through(n.id, wcfg.exit.id, loop_step)
        res.add("R03.14", f"_written_variable|loop-carried:{setname}", ok14, f"{wv.unit.rel}:{n.lineno}",
                f"after a write is filed under `{setname}` the loop-carried check (loop_depth > 0 and the name was read) is always made" if ok14 else
                f"a write filed under `{setname}` can leave the collector without the loop-carried check: a name that the region reads and then rebinds "
                "(conditionally) inside a loop is not marked as read afterwards, the extracted function does not return it, and the next iteration of the "
                "loop sees the old value", function=wv.qualname)

    def contributions(fn: ast.AST, e: ast.AST, depth: int = 0) -> Set[str]:
        """which in-region write sets can contribute names to the value of set expression e"""
        if depth > 6:
            return set()
        if isinstance(e, ast.Attribute) and e.attr in region_sets and isinstance(e.value, ast.Attribute) and e.value.attr == "info_collector":
            return {e.attr}
        if isinstance(e, ast.BinOp) and isinstance(e.op, (ast.BitOr, ast.BitAnd)):
            return contributions(fn, e.left, depth + 1) | contributions(fn, e.right, depth + 1)
        if isinstance(e, ast.BinOp) and isinstance(e.op, ast.Sub):
            return contributions(fn, e.left, depth + 1)
        if isinstance(e, ast.Call) and isinstance(e.func, ast.Attribute) and e.func.attr in ("union", "intersection", "difference"):
            out = contributions(fn, e.func.value, depth + 1)
            if e.func.attr != "difference":
                for a in e.args:
                    out |= contributions(fn, a, depth + 1)
            return out
        if isinstance(e, ast.Call) and e.args and call_name(e) in ("list", "set", "sorted", "tuple", "OrderedSet", "frozenset"):
            return contributions(fn, e.args[0], depth + 1)
        if isinstance(e, ast.Name):
            out: Set[str] = set()
            for x in walk_local(fn):
                if isinstance(x, ast.Assign) and any(isinstance(t, ast.Name) and t.id == e.id for t in x.targets) and x.value is not e:
                    out |= contributions(fn, x.value, depth + 1)
                if isinstance(x, ast.AugAssign) and isinstance(x.target, ast.Name) and x.target.id == e.id:
                    out |= contributions(fn, x.value, depth + 1)
            return out
        return set()

    deciders = []
    for mname, m in sorted(parts.methods.items()):
        reads = {x.attr for x in ast.walk(m.node) if isinstance(x, ast.Attribute) and isinstance(x.value, ast.Attribute)
                 and x.value.attr == "info_collector"}
        if reads & {"globals_", "nonlocals_"} or mname == "_find_function_returns":
            deciders.append((mname, m))
    n9 = 0
    for mname, m in deciders:
        outs = []
        for x in walk_local(m.node):
            if isinstance(x, ast.Return) and x.value is not None:
                outs.append(x.value)
            if isinstance(x, ast.Assign):
                outs.append(x.value)
        worst, n_e = None, 0
        for e in outs:
            got = contributions(m.node, e)
            if not got:
                continue
            n_e += 1
            if region_sets - got and worst is None:
                worst = (e, got)
        if not n_e:
            continue
        n9 += 1
        if worst:
            e, got = worst
            missing = region_sets - got
        res.add("R03.9", f"_ExtractMethodParts.{mname}|may-write", worst is None, f"{m.unit.rel}:{(worst[0] if worst else m.node).lineno}",
                f"{n_e} set expression(s) take the union of all in-region write sets {sorted(region_sets)}" if worst is None else
                f"{mname} decides which written names are passed back / re-declared from {sorted(got)} only, leaving out {sorted(missing)}: a name the "
                "region assigns only conditionally (under if/for/while/try) is not returned or not declared global/nonlocal in the new function, "
                "so the write is lost or raises UnboundLocalError", function=m.qualname)
    res.floor("R03.9", "write-set computations in returns/global/nonlocal deciders", n9, 3)

    # ---- R03.10 comprehension variables are local to the comprehension: the collector removes them from its flow sets
    # after visiting it, but an OUTER variable of the same name that was read/written before must stay.  Every flow set
    # that is reduced by the comprehension's target names is re-united with a snapshot taken before the visit.
    comp_handlers = [v.handler(COLLECTOR, c) for c in ("ListComp", "SetComp", "DictComp", "GeneratorExp")]
    comp_fn = None
    for h in comp_handlers:
        if h is None:
            continue
        for c in calls_in(h.node):
            if is_self_attr(c.func) and c.func.attr in coll.methods and any(
                    isinstance(x, ast.Attribute) and x.attr == "generators" for x in ast.walk(coll.methods[c.func.attr].node)):
                comp_fn = coll.methods[c.func.attr]
        if comp_fn is None and any(isinstance(x, ast.Attribute) and x.attr == "generators" for x in ast.walk(h.node)):
            comp_fn = h
    if comp_fn is None:
        raise AnalysisError("anchor=collector comprehension handler (reads node.generators) not found")
    body = list(comp_fn.node.body)
    first_visit = next((i for i, st in enumerate(body) if any(is_self_attr(c.func, "visit") or call_name(c) == "generic_visit" for c in calls_in(st))), None)
    snaps: Dict[str, str] = {}
    for i, st in enumerate(body):
        if first_visit is not None and i >= first_visit:
            break
        if isinstance(st, ast.Assign) and isinstance(st.targets[0], ast.Name):
            src = [x for x in ast.walk(st.value) if is_self_attr(x)]
            if len(src) == 1:
                snaps[st.targets[0].id] = src[0].attr
    n10 = 0
    for st in walk_local(comp_fn.node):
        if not (isinstance(st, ast.Assign) and len(st.targets) == 1 and is_self_attr(st.targets[0])):
            continue
        attr = st.targets[0].attr
        subs = [x for x in ast.walk(st.value) if isinstance(x, ast.BinOp) and isinstance(x.op, ast.Sub) and is_self_attr(x.left, attr)]
        if not subs:
            continue
        n10 += 1
        restored = isinstance(st.value, ast.BinOp) and isinstance(st.value.op, ast.BitOr) and any(
            isinstance(side, ast.Name) and snaps.get(side.id) == attr for side in (st.value.left, st.value.right))
        res.add("R03.10", f"{comp_fn.name}|restore:{attr}", restored, f"{comp_fn.unit.rel}:{st.lineno}",
                f"self.{attr} minus the comprehension's names is re-united with the snapshot taken before the visit" if restored else
                f"{comp_fn.name} removes the comprehension's target names from self.{attr} without re-uniting it with a snapshot taken before the "
                "comprehension was visited: an outer variable that merely shares its name with a comprehension variable is forgotten, so extract does "
                "not pass it in (NameError) or does not pass it back (stale value)", function=comp_fn.qualname)
    res.floor("R03.10", "flow sets reduced by comprehension targets", n10, 2)

    # ---- R03.11 (=R15.9) the host function's extent is not cut short by a comment line
    from .c15 import scope_end_rule

    scope_end_rule(ctx, res, "R03.11")

    # ---- R03.12 sibling agreement on "inside the region": the collector decides it for reads, writes and for the
    # conditional context with a chained comparison against self.start / self.end; all of them use the same closed interval
    n12 = 0
    shapes = {}
    for mname, m in sorted(coll.methods.items()):
        for x in walk_local(m.node):
            if isinstance(x, ast.Compare) and len(x.ops) == 2 and {y.attr for y in ast.walk(x) if is_self_attr(y)} >= {"start", "end"} \
                    and is_self_attr(x.left, "start") and is_self_attr(x.comparators[1], "end"):
                n12 += 1
                shapes.setdefault((type(x.ops[0]).__name__, type(x.ops[1]).__name__), []).append((m, x))
    for shape, sites in sorted(shapes.items()):
        for m, x in sites:
            ok = shape == ("LtE", "LtE")
            res.add("R03.12", f"{m.name}|region-interval", ok, f"{m.unit.rel}:{x.lineno}",
                    "inside-the-region is the closed interval [start, end] of lines" if ok else
                    f"{m.name} tests `{ast.unparse(x)}` while the other in-region tests of the collector use start <= line <= end: a one-line compound "
                    "statement on the region's last line is not treated as conditional, so what it assigns counts as always written (returned but not "
                    "passed in: UnboundLocalError on the path where its body does not run)", function=m.qualname)
    res.floor("R03.12", "in-region interval tests of the collector", n12, 2)

    # ---- R03.13 (=R15.12) `import a.b` binds `a`
    from .common import import_binding_rule

    import_binding_rule(ctx, res, "R03.13")

    # ---- R03.6 suite walker
    idx.need_class(SUITES)
    n6 = 0
    for c in stmts:
        ct = G.ctors[c]
        lists = []
        for f in ct.fields:
            if f.type == "stmt" and f.mult == "*":
                lists.append(f.name)
            elif f.mult == "*" and f.type in ("excepthandler", "match_case"):
                for sub in G.ctors_of(f.type):
                    for g in G.ctors[sub].fields:
                        if g.type == "stmt" and g.mult == "*":
                            lists.append(f"{f.name}.{g.name}")
        if not lists:
            continue
        n6 += 1
        h = v.handler(SUITES, c)
        missing = list(lists)
        if h is not None:
            s = v.summary(SUITES, h)
            wrapped: Set[str] = set()
            for e in s.escapes():
                if e.target.endswith(".Suite"):
                    wrapped |= set(e.paths)
            missing = [f for f in lists if f not in wrapped]
        res.add("R03.6", c, not missing, h.where if h else idx.classes[SUITES].where,
                f"{c}: statement lists {lists} are wrapped in suites" if not missing else
                f"_SuiteWalker does not open a suite for {c}.{missing} ({'no handler' if h is None else h.qualname}): find_visible treats statements inside "
                "as belonging to the enclosing suite, so a definition extracted for several uses can be placed inside the block and used after it")
    res.floor("R03.6", "compound statements", n6, 10)


def check(ctx, res) -> None:
    _check_body(ctx, res)
    _compound_children_rule(ctx, res)
    from .common import memo_key_rule

    from .common import identifier_char_rule

    identifier_char_rule(ctx, res, "R03.16", ("rope.refactor.extract", "rope.refactor.similarfinder", "rope.refactor.wildcards"))
    _loop_carried_reads_rule(ctx, res)
    memo_key_rule(ctx, res, "R03.15", ("rope.refactor.similarfinder", "rope.refactor.wildcards", "rope.refactor.extract"))
    from .common import line_model_rule as _lm

    _lm(ctx, res, "R03.18", ('rope.refactor.extract', 'rope.refactor.similarfinder', 'rope.refactor.suites', 'rope.refactor.sourceutils', 'rope.refactor.usefunction'))
    from .common import no_whitespace_normalisation_rule as _wn

    _wn(ctx, res, "R03.19", ('rope.refactor.extract', 'rope.refactor.sourceutils', 'rope.refactor.similarfinder', 'rope.refactor.usefunction'))
    _return_last_is_not_seen_through_a_handler_rule(ctx, res)
    _one_key_at_a_time_rule(ctx, res)
    _later_conditional_write_rule(ctx, res)


def _loop_carried_reads_rule(ctx, res) -> None:
    """R03.17: a variable written in the extracted region must come back from the new function when it is read AFTER the
    region.  In a loop around the region "after" includes everything in the loop body that stands BEFORE the region: it
    runs again in the next iteration.  (a) `_read_variable` files a read that precedes the region (`lineno < self.start`)
    in a set of its own while a loop around the region is open, and the loop-carried test of `_written_variable` -- the one
    under `loop_depth > 0` that adds to `postread` -- asks that set as well as the reads inside the region.  (b) the loop
    context raises and lowers `loop_depth` under the SAME condition: lowered unconditionally, a loop that lies inside or
    after the region takes the depth below the number of loops that are really open."""
    idx = ctx.idx
    coll = idx.need_class(COLLECTOR)
    # by role, whatever the methods are called: the one that files into `self.read`, the one that files into
    # `self.written`, the one that raises / lowers `self.loop_depth`
    def adds_to(m, attr):
        return any(isinstance(c.func, ast.Attribute) and c.func.attr == "add" and is_self_attr(c.func.value, attr) for c in calls_in(m.node))
    rd = next((m for m in coll.methods.values() if adds_to(m, "read")), None)
    wr = next((m for m in coll.methods.values() if adds_to(m, "written")), None)
    lc = next((m for m in coll.methods.values() if any(isinstance(x, ast.AugAssign) and is_self_attr(x.target, "loop_depth") for x in walk_local(m.node))), None)
    if rd is None or wr is None or lc is None:
        raise AnalysisError("anchor=_FunctionInformationCollector._read_variable/_written_variable/_handle_loop_context missing")
    # (a) sets filled with reads before the region
    from . import common as _common
    rcfg = CFG(_common.inlined(idx, rd))
    pre_sets = set()
    for nd in rcfg.nodes:
        if nd.kind != "stmt" or nd.ast is None:
            continue
        for c in calls_in(nd.ast):
            if isinstance(c.func, ast.Attribute) and c.func.attr == "add" and is_self_attr(c.func.value):
                before = False
                for t, pol in rcfg.guards(nd.id):
                    if isinstance(t, ast.Compare) and len(t.ops) == 1 and pol:
                        l, r, op = t.left, t.comparators[0], t.ops[0]
                        if (is_self_attr(r, "start") and isinstance(op, ast.Lt)) or (is_self_attr(l, "start") and isinstance(op, ast.Gt)):
                            before = True
                if before:
                    pre_sets.add(c.func.value.attr)
    wcfg = CFG(_common.inlined(idx, wr))
    carried = [nd for nd in wcfg.nodes if nd.kind == "stmt" and nd.ast is not None and any(
        isinstance(c.func, ast.Attribute) and c.func.attr == "add" and is_self_attr(c.func.value, "postread") for c in calls_in(nd.ast))
        and any(pol and any(is_self_attr(y, "loop_depth") for y in ast.walk(t)) for t, pol in wcfg.guards(nd.id))]
    if not carried:
        raise AnalysisError("anchor=_written_variable: the loop-carried filing into postread not found")
    asks_pre = False
    for t in wcfg.nodes:
        if t.kind == "test" and isinstance(t.ast, ast.Compare) and len(t.ast.ops) == 1 and isinstance(t.ast.ops[0], ast.In) \
                and is_self_attr(t.ast.comparators[0]) and t.ast.comparators[0].attr in pre_sets:
            for b, lab in wcfg.succ[t.id]:
                if lab == "true" and any(nd.id in wcfg.reachable(b) for nd in carried):
                    asks_pre = True
    res.add("R03.17", "_written_variable|loop-carried-check-sees-reads-before-the-region", asks_pre, f"{wr.unit.rel}:{carried[0].lineno}",
            f"the loop-carried test also asks the reads that precede the region in the enclosing loop ({sorted(pre_sets)})" if asks_pre else
            "a write in the region is taken for loop-carried only when the REGION read the name before: a read that stands earlier in the enclosing loop "
            "(`for i in r: print(a); a = i + 1` with the assignment extracted) runs again after the region, but the new function does not return the value "
            "and the loop keeps printing the old one", function=wr.qualname)
    # (b) paired update of loop_depth
    lcfg = CFG(_common.inlined(idx, lc))
    ups, downs = [], []
    live = lcfg.reachable(lcfg.entry.id)  # (the copy of a `finally` block for an exit that cannot happen has no guards)
    for nd in lcfg.nodes:
        st = nd.ast
        if nd.id in live and nd.kind == "stmt" and isinstance(st, ast.AugAssign) and is_self_attr(st.target, "loop_depth"):
            conds = sorted(norm(t) + ("" if pol else "!") for t, pol in lcfg.guards(nd.id))
            (ups if isinstance(st.op, ast.Add) else downs).append((nd, conds))
    if not ups or not downs:
        raise AnalysisError("anchor=_handle_loop_context: loop_depth is not raised and lowered here")
    paired = all(any(c == u for _, u in ups) for _, c in downs)
    res.add("R03.17", "_handle_loop_context|depth-lowered-as-it-was-raised", paired, f"{lc.unit.rel}:{downs[0][0].lineno}",
            "loop_depth is lowered under the condition it was raised under" if paired else
            "loop_depth is raised only for a loop that starts before the region but lowered after EVERY loop: a loop inside (or after) the region takes the depth "
            "to zero or below while the enclosing loop is still open, and a loop-carried variable written after it is not returned", function=lc.qualname)


def _return_last_is_not_seen_through_a_handler_rule(ctx, res) -> None:
    """R03.20: a region with a `return` is extracted as `return helper(...)` only if the return is the LAST thing the region does on every
    path; otherwise the request is refused ("Return should be the last statement").  The test behind that refusal may look through
    a trailing block that runs its body in place (`with`, `try/finally`), never through a `try` with HANDLERS: when the body raises
    the handled exception the region falls through to the code after it, which `return helper(...)` skips.  In the function(s)
    the refusal consults, an `isinstance(..., ast.Try)` that leads into the block's body goes with a test of `.handlers`."""
    idx = ctx.idx
    cands = [f for f in idx.functions.values() if f.unit.modname in ("rope.refactor.extract", "rope.refactor.usefunction") and "returns_last" in f.name]
    if not cands:
        raise AnalysisError("anchor=the return-is-last test (extract / usefunction) not found")
    n = 0
    for f in sorted(cands, key=lambda f: f.qualname):
        n += 1
        tries = [c for c in ast.walk(f.node) if isinstance(c, ast.Call) and call_name(c) == "isinstance" and len(c.args) == 2 and any(
            (dotted(e) or "").split(".")[-1] in ("Try", "TryStar") for e in (c.args[1].elts if isinstance(c.args[1], ast.Tuple) else [c.args[1]]))]
        reads_handlers = any(isinstance(x, ast.Attribute) and x.attr == "handlers" for x in ast.walk(f.node))
        ok = not tries or reads_handlers
        res.add("R03.20", f"{f.qualname.split('.', 2)[-1]}|no-look-through-a-try-with-handlers", ok, f.where,
                "the test does not descend into a try statement (or looks at its handlers)" if ok else
                f"`{ast.unparse(tries[0])[:70]}` lets the return-is-last test descend into the body of a `try` without looking at its handlers: a region that ends with `try: ...; return x` "
                "/ `except KeyError: pass` is accepted and replaced by `return helper(...)` -- on the exception path the function now returns None instead of running the statements "
                "after the region", function=f.qualname)
    res.floor("R03.20", "return-is-last tests", n, 1)


def _one_key_at_a_time_rule(ctx, res) -> None:
    """R03.21: a request is honoured or refused with a refactoring error, whatever the host function declares.  `set.add` / `OrderedSet.add` take
    ONE key: `names.add(*node.names)` works for `global a` and raises TypeError for `global a, b` -- every extraction in such a function
    ends in an internal error.  No call of `.add` in the extraction code has a starred argument (the detector is checked on a fixed
    example at every run)."""
    idx = ctx.idx
    probe = ast.parse("s.add(*names)\ns.add(name)\ns.update(*many)\n")
    starred = lambda tree: [c for c in ast.walk(tree) if isinstance(c, ast.Call) and isinstance(c.func, ast.Attribute) and c.func.attr == "add"
                            and any(isinstance(a, ast.Starred) for a in c.args)]
    if len(starred(probe)) != 1:
        raise AnalysisError("starred-add detector self-check failed")
    n = 0
    for modname in ("rope.refactor.extract", "rope.refactor.usefunction", "rope.refactor.similarfinder", "rope.refactor.suites", "rope.base.utils.datastructures"):
        u = idx.units.get(modname)
        if u is None:
            continue
        for c in starred(u.tree):
            n += 1
            res.fail("R03.21", f"{modname.split('.')[-1]}|add-takes-one-key#{n}", f"{u.rel}:{c.lineno}",
                     f"`{ast.unparse(c)[:60]}` hands all the elements to a method that takes ONE key: fine for `global a`, TypeError for `global a, b` -- extracting anything in a function "
                     "with such a declaration ends in an internal error instead of a result or a refusal")
    res.add("R03.21", "extract|add-takes-one-key", n == 0, "rope/refactor/extract.py:1", "no `.add(*...)` call in the extraction code" if n == 0 else f"{n} `.add(*...)` call(s) in the extraction code")


def _later_conditional_write_rule(ctx, res) -> None:
    """R03.22: whether the region's value of a variable is needed AFTER the region is decided by the reads that follow it -- except those a later
    write shields.  A write shields only if it HAPPENS: one inside an `if` / loop / `try` that ends after the region may not (`b = a + 1` as the
    region, then `if a > 5: b = 100`, then `return b`).  In the collector the entry into the set of certain later writes stands under the
    negation of a flag that the conditional-context manager sets for blocks reaching past the region."""
    from . import common
    idx = ctx.idx
    cls = idx.need_class("rope.refactor.extract._FunctionInformationCollector")
    flags = set()
    for m in cls.methods.values():
        if any(d.split(".")[-1] == "contextmanager" for d in m.decorator_names()):
            flags |= {t.attr for x in walk_local(m.node) if isinstance(x, ast.Assign) and isinstance(x.value, ast.Constant) and x.value.value is True
                      for t in x.targets if is_self_attr(t)}
    n = 0
    for m in cls.methods.values():
        cfg = None
        for c in calls_in(m.node):
            if not (isinstance(c.func, ast.Attribute) and c.func.attr == "add" and is_self_attr(c.func.value, "postwritten")):
                continue
            n += 1
            cfg = cfg or CFG(m.node)
            nds = cfg.node_containing(c)
            ok = bool(nds) and all(any(not pol and is_self_attr(t) and t.attr in flags for t, pol in common.plain_guards(cfg, nd.id)) for nd in nds)
            res.add("R03.22", f"_FunctionInformationCollector.{m.name}|only-certain-later-writes-shield#{n}", ok, f"{m.unit.rel}:{c.lineno}",
                    "a write after the region counts as certain only outside blocks that reach past the region" if ok else
                    f"`{ast.unparse(c)}` records EVERY write after the region as certain: with `b = a + 1` as the region followed by `if a > 5: b = 100` and `return b`, the read in the "
                    "return is taken to see the later write, `b` is not returned from the helper, and the call site becomes a bare `new(a)` -- f(1) gives 0 instead of 2",
                    function=m.qualname, flags=sorted(flags))
    res.floor("R03.22", "entries into the set of certain later writes", n, 1)


_COMPOUND = ("For", "AsyncFor", "While", "If", "Try", "TryStar", "With", "AsyncWith", "Match", "match_case", "ExceptHandler")


def _compound_children_rule(ctx, res) -> None:
    """R03.23: the flow summary is complete only if the collector SEES every statement and expression of the host function.  A handler of
    the collector for a compound statement therefore hands every node-valued field of the statement on to the visitor -- the `orelse`
    of a loop as well as its body, the handlers and the `finalbody` of a try -- through the generic walk over all children or field by
    field.  (The visitor summaries are call-site sensitive: a helper that walks "all children unless it is told which" counts as walking
    what it was told.)  A part that is never visited does not exist for extract: a name the region defines and only a for-else reads is
    not returned."""
    idx = ctx.idx
    v = vgc_mod.get(ctx)
    n = 0
    for c in _COMPOUND:
        if c not in G.ctors:
            continue
        h = v.handler(COLLECTOR, c)
        if h is None:
            continue  # no handler: the generic traversal visits every child
        s = v.summary(COLLECTOR, h)
        paths = {p for e in s.visits() for p in e.paths}
        need = [f.name for f in G.ctors[c].fields if f.is_node]
        missing = [f for f in need if "*" not in paths and not any(p == f or p.startswith(f + ".") for p in paths)]
        n += 1
        res.add("R03.23", f"{COLLECTOR.split('.')[-1]}.{h.name}|{c}|every-part-is-visited", not missing, h.where,
                f"every node-valued field of {c} ({', '.join(need)}) is handed on to the visitor" if not missing else
                f"the collector's handler for {c} never visits {c}.{missing[0]}"
                + (f" (and {', '.join(missing[1:])})" if len(missing) > 1 else "")
                + ": reads and writes there do not exist for extract -- a name the region assigns that is read only in the `else` of a later "
                "`for` loop is not returned, the extraction is accepted and the host raises NameError (or silently uses an old value)", function=h.qualname)
    res.floor("R03.23", "handlers of compound statements in the flow collector", n, 5)
