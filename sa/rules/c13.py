"""C13 -- a long-lived project answers like a fresh one (clauses R13.1-R13.19)."""
from __future__ import annotations

import ast
from typing import Dict, List, Optional, Set

from ..cfg import CFG
from ..core import AnalysisError, call_name, calls_in, dotted, is_self_attr, norm, walk_local, param_names, first_param
from . import common

EXPLANATION = (
    "R13.1: in _ResourceOperations (and libutils.report_change) every normal CFG path after a file-system mutation "
    "reaches the loop over project.observers calling the matching resource_<kind> with the method's own resource "
    "parameters.  R13.2: each observer registration (ResourceObserver(...) construction) passes non-None handlers "
    "for the event kinds its cache needs (explicit table with reasons) and is added to the project.  R13.3: module-"
    "cache invalidation performs all of forget-concluded-data / unregister / delete, and is wired through "
    "cache_observers.  R13.4: FilteredResourceObserver refreshes its change indicator after each reported event.  "
    "R13.5: a handler registered on a *raw* observer that indexes per file either handles folder events or "
    "invalidates wholesale.  R13.6: in the filtered observer every reported resource is the one that was tested "
    "(guard/action agreement), no report is control-dependent on the failure of another resource's watched-test, and a move covers the parents of both ends.  R13.7 (=R09.7): every element entering the cached file listing is dominated by a negative is_ignored test of that element.  R13.8: the not-found path of a module lookup stores nothing into the concluded-data cell.  R13.9: object-lifetime caches (saveit) in the object model never hold values computed from concluded data.  Sufficiency of invalidation for every query is not decided."
    ' R13.10: the change indicator is compared for (in)equality only and carries mtime and size.  R13.11: re-indexing a module deletes its rows on every path before inserting; the LIKE prefix that deletes a package escapes %, _ and the escape character (first).'
    ' R13.12: each validate search looks the validated resource itself up in the watch table, folder or not.'
)
EXPLANATION += ' R13.15: the unfiltered observer resets concluded data on created, moved, removed and validate.'
EXPLANATION += ' R13.14: a function that remembers its answer under a key reads, in the computation of the remembered value, nothing of its parameters that the key does not contain (followed into the helpers it calls).'
EXPLANATION += ' R13.16: in the auto-import observer every per-file index update is dominated by the Python-file test that generate_cache applies.'
EXPLANATION += " R13.17: a table of an object whose entries are computed from another table of the object is dropped, entry by entry, wherever the source table changes."
EXPLANATION += " R13.18: a concluded-data cell is put on the list the reset iterates whatever it holds (never conditional on the truth value of the data)."
EXPLANATION += " R13.19: the module stored in the module cache is constructed from the resource alone (no source text handed to the constructor)."
EXPLANATION += " R13.20: a resource operation whose file-system command is `write` -- which creates the file when it is not there -- reports `created` on the paths on which the file did not exist before the write (the existence test is evaluated before the write)."
ASSUMPTIONS = ["required event sets per cache are a hand-confirmed table (sa/rules/c13.py REQUIRED) with reasons"]

MUTATOR_KIND = {"write": "changed", "move": "moved", "remove": "removed", "create_file": "created",
                "create_folder": "created"}
EVENTS = ["changed", "moved", "created", "removed", "validate"]

# registration site (enclosing function) -> (required events, must be filtered?, reason)
REQUIRED = {
    "rope.base.pycore.PyCore._init_resource_observer":
        ({"changed", "moved", "removed", "created", "validate"}, True,
         "module cache: a changed/moved/removed module must drop its PyModule (per cached file, through the Filtered wrapper); a CREATED module or "
         "package -- through rope or found by validate() -- can make an import resolvable that was not, and no cached module reports that, so "
         "concluded data must be dropped on created/validate too"),
    "rope.base.pycore.PyCore._init_automatic_soa":
        ({"changed"}, False, "automatic static object analysis re-runs on changed files"),
    "rope.base.project._FileListCacher.__init__":
        ({"changed", "moved", "created", "removed", "validate"}, False, "file list: any create/remove/move/external change alters the set of files"),
    "rope.base.oi.objectinfo.ObjectInfoManager._init_validation":
        ({"changed", "moved", "removed"}, True, "object db: per-file call info must be revalidated/moved"),
    "rope.contrib.autoimport.sqlite.AutoImport.__init__":
        ({"changed", "moved", "removed"}, False, "global-name index: names of changed/moved/removed modules"),
    "rope.contrib.autoimport.pickle.AutoImport.__init__":
        ({"changed", "moved", "removed"}, False, "global-name index (legacy pickle implementation)"),
}


def _command_sources(ops):
    """(attributes of _ResourceOperations that hold a file-system command object, methods that hand one of them out): found by what
    they are -- attributes bound in __init__ to something of the fscommands layer, methods that return nothing but such attributes --
    not by their names"""
    init = ops.methods.get("__init__")
    attrs = set()
    if init is not None:
        for a in walk_local(init.node):
            if isinstance(a, ast.Assign) and any(is_self_attr(t) for t in a.targets) and "fscommands" in ast.unparse(a.value).lower().replace("filesystemcommands", "fscommands"):
                attrs |= {t.attr for t in a.targets if is_self_attr(t)}
    getters = set()
    for name, m in ops.methods.items():
        rets = [r.value for r in walk_local(m.node) if isinstance(r, ast.Return) and r.value is not None]
        if rets and all(is_self_attr(v) and v.attr in attrs for v in rets):
            getters.add(name)
    if not attrs:
        raise AnalysisError("anchor=_ResourceOperations.__init__: no attribute bound to a file-system command object")
    return attrs, getters


def _is_observer_loop(n: ast.AST) -> bool:
    return isinstance(n, ast.For) and any(isinstance(x, ast.Attribute) and x.attr == "observers" for x in ast.walk(n.iter))


def _notify_kinds(loop: ast.For) -> Dict[str, ast.Call]:
    out = {}
    for c in calls_in(loop):
        if isinstance(c.func, ast.Attribute) and c.func.attr.startswith("resource_"):
            out[c.func.attr[len("resource_"):]] = c
    return out


def check(ctx, res) -> None:
    _check_main(ctx, res)
    _indicator_rule(ctx, res)
    _name_index_rule(ctx, res)
    _validated_resource_itself_rule(ctx, res)
    _rewatch_rule(ctx, res)
    from .common import memo_key_rule

    memo_key_rule(ctx, res, "R13.14", (), rest=True)
    _structure_observer_rule(ctx, res)
    _index_only_modules_rule(ctx, res)
    _cell_registration_rule(ctx, res)
    _cached_module_is_read_from_its_file_rule(ctx, res)
    _write_that_creates_rule(ctx, res)
    from .common import derived_table_rule as _dt

    _dt(ctx, res, "R13.17", ('rope.base.pycore', 'rope.base.project', 'rope.base.resourceobserver', 'rope.base.pyobjects', 'rope.base.pynames', 'rope.contrib.autoimport.sqlite', 'rope.base.oi.objectinfo', 'rope.base.oi.memorydb'))


def _indicator_rule(ctx, res) -> None:
    """R13.10: external-change detection compares the stored indicator of a watched file with the current one.  (a) ANY
    difference means "changed": a restored backup, `cp -p`, `rsync -t`, `tar x` give an OLDER time stamp, so an ordering
    comparison misses them; (b) the indicator carries the modification time AND the size (an edit within the time stamp's
    granularity changes only the size)."""
    idx = ctx.idx
    mod = "rope.base.resourceobserver"
    n = 0
    for f in idx.functions.values():
        if f.unit.modname != mod:
            continue
        ind_names = {t.id for x in walk_local(f.node) if isinstance(x, ast.Assign) and isinstance(x.value, ast.Call)
                     and call_name(x.value) == "get_indicator" for t in x.targets if isinstance(t, ast.Name)}

        def is_ind(e) -> bool:
            return (isinstance(e, ast.Call) and call_name(e) == "get_indicator") or (isinstance(e, ast.Name) and e.id in ind_names)

        for x in walk_local(f.node):
            if isinstance(x, ast.Compare) and (is_ind(x.left) or any(is_ind(c) for c in x.comparators)):
                if all(isinstance(o, (ast.Is, ast.IsNot)) for o in x.ops):
                    continue
                n += 1
                ok = all(isinstance(o, (ast.Eq, ast.NotEq)) for o in x.ops)
                res.add("R13.10", f"{f.qualname.split('.', 3)[-1]}|indicator-comparison#{n}", ok, f"{f.unit.rel}:{x.lineno}",
                        "a watched file counts as changed whenever its indicator differs from the stored one" if ok else
                        f"`{ast.unparse(x)}` orders the indicators: a file replaced behind rope's back by one with an OLDER time stamp (restored backup, cp -p, "
                        "rsync -t) or the same time stamp and a smaller size is not reported by validate(); the module cache keeps the stale module",
                        function=f.qualname)
    res.floor("R13.10", "indicator comparisons", n, 1)
    gi = idx.need_func(f"{mod}.ChangeIndicator.get_indicator")
    rets = [r for r in walk_local(gi.node) if isinstance(r, ast.Return) and r.value is not None]
    if not rets:
        raise AnalysisError("anchor=ChangeIndicator.get_indicator: no return")
    for k, r in enumerate(rets, 1):
        names = {call_name(c) for c in ast.walk(r.value) if isinstance(c, ast.Call)}
        missing = sorted({"getmtime", "getsize"} - names)
        res.add("R13.10", f"ChangeIndicator.get_indicator|components#{k}", not missing, f"{gi.unit.rel}:{r.lineno}",
                "the indicator carries modification time and size" if not missing else
                f"the indicator lacks {missing}: an external edit that leaves "
                + ("the size" if missing == ["getmtime"] else "the time stamp (coarse granularity, or restored with os.utime)")
                + " unchanged is not seen by validate()", function=gi.qualname)


def _rewatch_rule(ctx, res) -> None:
    """R13.13: registering a resource with the filtered observer (re)records its indicator on EVERY call.  An entry can be
    stale in the table -- `_perform_changes` stores None for a resource that was moved away or removed, and the path may
    exist again (undo, a folder moved back) -- so "already in the table" is no reason to skip: with None kept,
    `_is_changed` answers False for ever and validate() never reports the file again."""
    idx = ctx.idx
    f = idx.need_func("rope.base.resourceobserver.FilteredResourceObserver.add_resource")
    cfg = CFG(common.inlined(idx, f))
    p0 = (f.call_params() or [None])[0]

    def records(nd) -> bool:
        return nd.kind == "stmt" and isinstance(nd.ast, ast.Assign) and any(
            isinstance(t, ast.Subscript) and is_self_attr(t.value, "resources") and isinstance(t.slice, ast.Name) and t.slice.id == p0 for t in nd.ast.targets)

    if not any(records(nd) for nd in cfg.nodes):
        raise AnalysisError("anchor=FilteredResourceObserver.add_resource: recording of the indicator not found")
    ok = cfg.must_pass_through(cfg.entry.id, cfg.exit.id, records)
    res.add("R13.13", "FilteredResourceObserver.add_resource|always-records", ok, f.where,
            "every call (re)records the indicator of the resource" if ok else
            "add_resource can return without recording the resource's indicator (an early exit for resources that are already in the table): a None left "
            "behind by a move/removal stays for ever once the path exists again, `_is_changed` answers False, and external edits of that module are "
            "never seen by validate() -- the module cache keeps the stale module", function=f.qualname)


def _validated_resource_itself_rule(ctx, res) -> None:
    """R13.12: validate(r) examines r ITSELF as well as what r contains.  A cached package is watched by its folder, and a
    child added behind rope's back shows only in that folder's indicator -- so in each search of the filtered observer the
    test "is r watched" is made whether or not r is a folder (it is not confined to the non-folder side of an
    `is_folder()` test; `Folder.contains` is strict, a folder does not contain itself)."""
    idx = ctx.idx
    fro = idx.need_class("rope.base.resourceobserver.FilteredResourceObserver")
    n = 0
    for mname, m in sorted(fro.methods.items()):
        if not mname.startswith("_search_resource_"):
            continue
        n += 1
        found, confined = [], []
        for g in common.with_private_helpers(idx, m):
            ps = g.call_params()
            if not ps:
                continue
            p0 = ps[0]
            cfg = CFG(g.node)
            for nd in cfg.nodes:
                if nd.ast is None:
                    continue
                hits = [x for x in ast.walk(nd.ast) if isinstance(x, ast.Compare) and len(x.ops) == 1 and isinstance(x.ops[0], ast.In)
                        and isinstance(x.left, ast.Name) and x.left.id == p0 and is_self_attr(x.comparators[0], "resources")]
                if not hits or isinstance(nd.ast, (ast.For, ast.While, ast.FunctionDef)):
                    continue
                side = [pol for t, pol in cfg.guards(nd.id) if isinstance(t, ast.Call) and call_name(t) == "is_folder"
                        and isinstance(t.func, ast.Attribute) and isinstance(t.func.value, ast.Name) and t.func.value.id == p0]
                (confined if side else found).append((g, nd))
        ok = bool(found)
        where = f"{(found or confined or [(m, None)])[0][0].unit.rel}:{(found or confined)[0][1].lineno}" if (found or confined) else m.where
        res.add("R13.12", f"{mname}|resource-itself", ok, where,
                "the validated resource itself is looked up in the watch table, folder or not" if ok else
                ("the validated resource itself is looked up in the watch table only when it is NOT a folder: validate(package_folder) no longer examines the "
                 "folder, so a module created in (or removed from) a cached package behind rope's back is never noticed and the package keeps its old child table"
                 if confined else "the validated resource itself is never looked up in the watch table"), function=m.qualname)
    res.floor("R13.12", "validate searches of the filtered observer", n, 3)


def _name_index_rule(ctx, res) -> None:
    """R13.11 the sqlite global-name index.  (a) re-indexing a module REPLACES its rows: on every path to the insertion of
    the module's names the rows of that module were deleted first (else names removed from the source stay importable);
    (b) the LIKE pattern that deletes a package's sub-modules escapes both wildcards and the escape character itself,
    the escape character first (else removing `my_pkg` also deletes `myxpkg.mod`)."""
    idx = ctx.idx
    up = idx.need_func("rope.contrib.autoimport.sqlite.AutoImport.update_resource")
    cfg = CFG(up.node)
    adds = [n for n in cfg.nodes if n.ast is not None and n.kind != "entry"
            and any(isinstance(c, ast.Call) and call_name(c) == "_add_name" for c in ast.walk(n.ast)) and not isinstance(n.ast, (ast.For, ast.While, ast.If))]
    if not adds:
        raise AnalysisError("anchor=sqlite.AutoImport.update_resource: insertion of names (_add_name) not found")

    def deletes(n) -> bool:
        return n.ast is not None and not isinstance(n.ast, (ast.For, ast.While, ast.If, ast.FunctionDef)) \
            and any(isinstance(c, ast.Call) and call_name(c) in ("_del_if_exist", "_del_package_if_exist") for c in ast.walk(n.ast))

    for k, a in enumerate(adds, 1):
        ok = cfg.must_pass_through(cfg.entry.id, a.id, deletes)
        res.add("R13.11", f"sqlite.AutoImport.update_resource|replace-rows#{k}", ok, f"{up.unit.rel}:{a.lineno}",
                "the module's old rows are deleted on every path before its names are inserted" if ok else
                "update_resource can insert the module's names without having deleted its old rows: a name removed from (or renamed in) the source "
                "stays in the index and is still offered for import; a fresh index does not have it", function=up.qualname)
    dp = idx.need_func("rope.contrib.autoimport.sqlite.AutoImport._del_package_if_exist")
    def chars_of(e):
        k = idx.const_node(dp.unit.modname, e, dp.cls)  # literal in place or a named constant
        return k.value if k is not None and isinstance(k.value, str) else None

    loops = [x for x in walk_local(dp.node) if isinstance(x, ast.For) and chars_of(x.iter) is not None
             and any(isinstance(c, ast.Call) and call_name(c) == "replace" for c in ast.walk(x))]
    if len(loops) != 1:
        raise AnalysisError("anchor=sqlite.AutoImport._del_package_if_exist: the loop escaping LIKE wildcards not found")
    specials = chars_of(loops[0].iter)
    stmt = None
    for u in idx.units.values():
        if u.modname == "rope.contrib.autoimport.models":
            for x in ast.walk(u.tree):
                if isinstance(x, ast.Constant) and isinstance(x.value, str) and "LIKE ? ESCAPE" in x.value:
                    stmt = x.value
    if stmt is None:
        raise AnalysisError("anchor=autoimport.models: the `LIKE ? ESCAPE` statement not found")
    esc = stmt.split("ESCAPE", 1)[1].strip().strip("'")
    missing = sorted({"%", "_", esc} - set(specials))
    first = specials[:1] == esc
    ok = not missing and first
    res.add("R13.11", "sqlite.AutoImport._del_package_if_exist|like-escape", ok, f"{dp.unit.rel}:{loops[0].lineno}",
            f"the package name is escaped for {sorted(set(specials))!r} (escape character first) before it is used as a LIKE prefix" if ok else
            (f"the package name is used as a LIKE prefix without escaping {missing}: removing or moving the package `my_pkg` also deletes the index rows of "
             "`myxpkg.*` (`_` matches any character), which a fresh index still has" if missing else
             f"the escape character {esc!r} is not escaped first: the backslashes added for the wildcards are escaped again"), function=dp.qualname)


def _check_main(ctx, res) -> None:
    idx = ctx.idx
    ops = idx.need_class("rope.base.change._ResourceOperations")

    # which methods mutate (directly, or via a self.method that does)
    cmd_attrs, cmd_getters = _command_sources(ops)

    def direct_mutations(fn) -> List[ast.Call]:
        locs = set()
        pnames = set(param_names(fn))  # a file-system command object handed in as a parameter
        for n in walk_local(fn):
            if isinstance(n, ast.Assign) and isinstance(n.value, ast.Call) and is_self_attr(n.value.func) \
                    and n.value.func.attr in cmd_getters:
                locs |= {t.id for t in n.targets if isinstance(t, ast.Name)}
        out = []
        for c in calls_in(fn):
            if isinstance(c.func, ast.Attribute) and c.func.attr in MUTATOR_KIND:
                r = c.func.value
                if (isinstance(r, ast.Name) and (r.id in locs or (r.id in pnames and "commands" in r.id))) or (is_self_attr(r) and r.attr in cmd_attrs):
                    out.append(c)
                elif isinstance(r, ast.Call) and is_self_attr(r.func) and r.func.attr in cmd_getters:
                    out.append(c)  # the command object used where it is obtained: self._get_fscommands(r).move(...)
        return out

    mut_methods: Dict[str, Set[str]] = {}
    for name, m in ops.methods.items():
        ks = {MUTATOR_KIND[c.func.attr] for c in direct_mutations(m.node)}
        if ks:
            mut_methods[name] = ks
    # ... or through a private method of the class that does (a mutation split into private steps)
    changed = True
    while changed:
        changed = False
        for name, m in ops.methods.items():
            for c in calls_in(m.node):
                if is_self_attr(c.func) and c.func.attr in mut_methods and c.func.attr != name and c.func.attr.startswith("_"):
                    add = mut_methods[c.func.attr] - mut_methods.get(name, set())
                    if add and name.startswith("_"):
                        mut_methods.setdefault(name, set()).update(add)
                        changed = True
    n131 = 0
    for name, m in sorted(ops.methods.items()):
        if name.startswith("_") and name != "__init__" and name in mut_methods:
            # private helper: obligation is on its callers
            continue
        # the notification may be a private step of the method (`self._notify_moved(a, b)`): read in place -- but not the getter of the
        # command object, by which the mutations are recognised
        mnode = common.inline_private_calls(idx, m, keep=tuple(cmd_getters))
        cfg = CFG(mnode)
        mut_nodes = []
        dm = direct_mutations(mnode)
        for n in cfg.nodes:
            if n.ast is None or n.kind not in ("stmt", "test"):
                continue
            for c in calls_in(n.ast) + ([n.ast] if isinstance(n.ast, ast.Call) else []):
                if c in dm:
                    mut_nodes.append((n, MUTATOR_KIND[c.func.attr]))
                elif is_self_attr(c.func) and c.func.attr in mut_methods and c.func.attr != name:
                    for k in mut_methods[c.func.attr]:
                        mut_nodes.append((n, k))
        if not mut_nodes:
            continue
        n131 += 1
        params = m.call_params()
        bad = None
        for mn, kind in mut_nodes:
            def notifies(n, kind=kind):
                if n.kind != "loop" or not _is_observer_loop(n.ast):
                    return False
                ks = _notify_kinds(n.ast)
                if kind not in ks:
                    return False
                args = [a.id for a in ks[kind].args if isinstance(a, ast.Name)]
                need = params[:2] if kind == "moved" else params[:1]
                return args == need
            if not cfg.must_pass_through(mn.id, cfg.exit.id, notifies):
                bad = (mn, kind)
                break
        res.add("R13.1", f"_ResourceOperations.{name}", bad is None, m.where,
                f"every normal path after the mutation notifies observers ({', '.join(sorted({k for _, k in mut_nodes}))})" if bad is None else
                f"_ResourceOperations.{name}: a normal path after the file-system {bad[1]} mutation (line {bad[0].lineno}) reaches the exit "
                f"without calling observer.resource_{bad[1]}({', '.join(params[:2] if bad[1] == 'moved' else params[:1])}) for every project observer: caches keep answering from the old tree",
                function=m.qualname)
    res.floor("R13.1", "mutating resource operations", n131, 4)
    rc = idx.need_func("rope.base.libutils.report_change")
    cfg = CFG(rc.node)
    loops = [n for n in cfg.nodes if n.kind == "loop" and _is_observer_loop(n.ast) and "changed" in _notify_kinds(n.ast)]
    # all normal exits either return early on "resource is None" or pass the loop
    ok = bool(loops)
    if ok:
        for n in cfg.nodes:
            if n.kind == "stmt" and isinstance(n.ast, ast.Return):
                gs = cfg.guards(n.id)
                if not any(isinstance(t, ast.Compare) and isinstance(t.ops[0], ast.Is) and pol for t, pol in gs) and \
                        not cfg.exists_path(loops[0].id, n.id):
                    ok = False
        ok = ok and cfg.must_pass_through(cfg.entry.id, cfg.exit.id,
                                          lambda n: n in loops or (n.kind == "stmt" and isinstance(n.ast, ast.Return)))
    res.add("R13.1", "libutils.report_change", ok, rc.where,
            "report_change notifies resource_changed unless the path is not a project resource" if ok else
            "libutils.report_change can return without notifying observers of the changed resource")

    # ---- R13.2 registrations
    ro = idx.need_class("rope.base.resourceobserver.ResourceObserver")
    ro_params = param_names(ro.methods["__init__"].node)[1:]
    seen = set()
    # a registration site may be split into private steps: they are read in place at the site and not taken for sites
    steps = set()
    for q in REQUIRED:
        sf = idx.functions.get(q)
        if sf is not None and sf.cls is not None:
            for c in calls_in(sf.node):
                if is_self_attr(c.func) and c.func.attr.startswith("_"):
                    hm = idx.find_method(sf.cls.qualname, c.func.attr)
                    if hm is not None:
                        steps.add(hm.qualname)
    for f in sorted(idx.functions.values(), key=lambda f: f.qualname):
        if f.qualname in steps and f.qualname not in REQUIRED:
            continue
        fnode = common.inlined(idx, f) if f.qualname in REQUIRED else f.node
        regs = []  # (call, events, filtered, registered)
        for c, passed in _observer_constructions(idx, f.unit.modname, fnode, ro.qualname, ro_params):
            events = {e for e in EVENTS if e in passed and not (isinstance(passed[e], ast.Constant) and passed[e].value is None)}
            # wrapped / registered?
            var = None
            for n in walk_local(fnode):
                if isinstance(n, ast.Assign) and n.value is c and isinstance(n.targets[0], ast.Name):
                    var = n.targets[0].id
            filtered, registered = False, False
            wrapped_names = {var}
            for n in walk_local(fnode):
                if isinstance(n, ast.Assign) and isinstance(n.value, ast.Call) and call_name(n.value) == "FilteredResourceObserver" \
                        and n.value.args and isinstance(n.value.args[0], ast.Name) and n.value.args[0].id == var:
                    filtered = True
                    wrapped_names.add(norm(n.targets[0]).replace("Store", "Load"))
            for c2 in calls_in(fnode):
                if call_name(c2) == "add_observer" and c2.args:
                    a = c2.args[0]
                    if (isinstance(a, ast.Name) and a.id in wrapped_names) or norm(a) in wrapped_names:
                        registered = True
            regs.append((c, events, filtered, registered))
        if not regs:
            continue
        site = f.qualname
        seen.add(site)
        c0 = regs[0][0]
        events = set().union(*[e for _, e, _, r in regs if r])
        if site not in REQUIRED:
            res.undecided("R13.2", site.split(".", 2)[-1], f"{f.unit.rel}:{c0.lineno}",
                          f"observer registration not in the table (events={sorted(events)})")
            continue
        need, must_filter, reason = REQUIRED[site]
        missing = need - events
        unregistered = [c for c, _, _, r in regs if not r]
        per_file = {"changed", "moved", "removed"} & need
        filtered_ok = not must_filter or any(fl and r and per_file <= e for _, e, fl, r in regs)
        ok = not missing and not unregistered and filtered_ok
        res.add("R13.2", site.split(".", 2)[-1], ok, f"{f.unit.rel}:{c0.lineno}",
                f"registers {sorted(events)} ⊇ required {sorted(need)} ({reason})" if ok else
                f"{site}: " + (f"no handler for {sorted(missing)} events; " if missing else "")
                + ("an observer is never added to the project; " if unregistered else "")
                + ("the per-file handlers are not wrapped in FilteredResourceObserver (validate/folder events do not reach them); " if not filtered_ok else "")
                + f"needed because: {reason}", events=sorted(events))
    gone = set(REQUIRED) - seen
    if gone:
        raise AnalysisError(f"anchor=observer registration site(s) vanished: {sorted(gone)}")

    # ---- R13.3 invalidation completeness
    mc = idx.need_class("rope.base.pycore._ModuleCache")
    inv = mc.methods.get("_invalidate_resource")
    if not inv:
        raise AnalysisError("anchor=_ModuleCache._invalidate_resource not found")
    inv_node = common.inlined(idx, inv)  # the three actions may be a private step (`self._drop_cached_module(resource)`)
    cfg = CFG(inv_node)
    rparam = first_param(inv.node)
    map_attr = None
    acts = {"forget": None, "unregister": None, "delete": None}
    for n in cfg.nodes:
        if n.kind != "stmt":
            continue
        a = n.ast
        if isinstance(a, ast.Delete):
            for t in a.targets:
                tv = common._subst_single_locals(inv_node, t.value) if isinstance(t, ast.Subscript) else None  # `m = self.module_map ... del m[resource]`
                if isinstance(t, ast.Subscript) and is_self_attr(tv) and isinstance(t.slice, ast.Name) and t.slice.id == rparam:
                    acts["delete"] = n
                    map_attr = tv.attr
        for c in calls_in(a):
            if is_self_attr(c.func):
                callee = mc.methods.get(c.func.attr)
                if callee and any(call_name(x) == "_forget_concluded_data" for x in calls_in(callee.node)):
                    loops = [l for l in walk_local(callee.node) if isinstance(l, ast.For)]
                    if loops and any(is_self_attr(x) for x in ast.walk(loops[0].iter)):
                        acts["forget"] = n
            if call_name(c) == "_forget_concluded_data":
                pass
            if call_name(c) == "remove_resource" and c.args and isinstance(c.args[0], ast.Name) and c.args[0].id == rparam:
                acts["unregister"] = n
            if call_name(c) == "pop" and c.args and isinstance(c.args[0], ast.Name) and c.args[0].id == rparam and is_self_attr(common._subst_single_locals(inv_node, c.func.value)):
                acts["delete"] = n
                map_attr = common._subst_single_locals(inv_node, c.func.value).attr
    missing = [k for k, v in acts.items() if v is None]
    if not missing:
        # all three on the cached path: each action must be reached from the 'in map' true edge on every normal path
        tests = [n for n in cfg.nodes if n.kind == "test" and isinstance(n.ast, ast.Compare) and isinstance(n.ast.ops[0], ast.In)]
        ok = True
        for t in tests:
            tgt = [b for b, l in cfg.succ[t.id] if l == "true"]
            for k, an in acts.items():
                if tgt and not cfg.must_pass_through(tgt[0], cfg.exit.id, lambda n, an=an: n is an):
                    ok = False
                    missing.append(k + " (not on every path)")
    res.add("R13.3", "_ModuleCache._invalidate_resource", not missing, inv.where,
            "invalidating a cached module forgets all concluded data, unregisters the resource and deletes the map entry" if not missing else
            f"_ModuleCache._invalidate_resource does not perform: {missing} -- a changed module (or modules that concluded data from it) keeps stale inference results")
    # wiring
    pc = idx.need_class("rope.base.pycore.PyCore")
    wired = any(call_name(c) == "append" and isinstance(c.func.value, ast.Attribute) and c.func.value.attr == "cache_observers"
                and c.args and is_self_attr(c.args[0], "_invalidate_resource")
                for m in mc.methods.values() for c in calls_in(m.node))
    fan = pc.methods.get("_invalidate_resource_cache")
    fanout = bool(fan) and any(isinstance(l, ast.For) and is_self_attr(l.iter, "cache_observers")
                               and any(isinstance(c.func, ast.Name) and c.func.id == l.target.id and c.args for c in calls_in(l))
                               for l in walk_local(fan.node))
    res.add("R13.3", "cache_observers-wiring", wired and fanout, (fan or pc).where,
            "module cache invalidator is appended to cache_observers and the PyCore callback calls every cache observer" if wired and fanout else
            "module cache invalidation is not wired: " + ("_ModuleCache does not register its invalidator; " if not wired else "")
            + ("PyCore._invalidate_resource_cache does not call every cache observer" if not fanout else ""))

    # ---- R13.4 indicator refresh
    fro = idx.need_class("rope.base.resourceobserver.FilteredResourceObserver")
    pch = fro.methods.get("_perform_changes")
    if not pch:
        raise AnalysisError("anchor=FilteredResourceObserver._perform_changes not found")
    n134 = 0
    # the three report loops may be private steps of the method (`self._report_changed(changes)` ...): read in place
    pch_node = common.inline_private_calls(idx, pch)
    for lp in [n for n in walk_local(pch_node) if isinstance(n, ast.For)]:
        kinds = sorted(_notify_kinds(lp))
        if not kinds:
            continue
        n134 += 1
        var = lp.target.elts[0].id if isinstance(lp.target, ast.Tuple) else lp.target.id
        stores = [s for s in walk_local(lp) if isinstance(s, ast.Assign) and isinstance(s.targets[0], ast.Subscript)
                  and is_self_attr(s.targets[0].value) and isinstance(s.targets[0].slice, ast.Name) and s.targets[0].slice.id == var]
        gone_kind = set(kinds) <= {"moved", "removed"}
        ok = False
        for s in stores:
            if gone_kind and isinstance(s.value, ast.Constant) and s.value.value is None:
                ok = True
            if not gone_kind and isinstance(s.value, ast.Call) and call_name(s.value) == "get_indicator" \
                    and s.value.args and isinstance(s.value.args[0], ast.Name) and s.value.args[0].id == var:
                ok = True
        res.add("R13.4", f"_perform_changes|{'+'.join(kinds)}", ok, f"{pch.unit.rel}:{lp.lineno}",
                f"after reporting {kinds} the stored indicator is {'cleared' if gone_kind else 'refreshed'}" if ok else
                f"FilteredResourceObserver._perform_changes reports {kinds} without "
                + ("clearing" if gone_kind else "refreshing") + " the stored change indicator: the next validate() reports the same change again or misses a new one")
    res.floor("R13.4", "report loops", n134, 3)

    # ---- R13.6 the filtered observer reports what it tested (guard/action agreement) and covers both ends of a move
    n136 = 0

    def parent_test_subject(t) -> Optional[str]:
        """norm(S) when the guard asks "is the PARENT of S watched": `S.parent in self.<table>` written in place, or a call
        `self._helper(S)` of a private method that returns `<param>.parent in self.<table>`"""
        if isinstance(t, ast.Compare) and len(t.ops) == 1 and isinstance(t.ops[0], ast.In) and isinstance(t.left, ast.Attribute) \
                and t.left.attr == "parent" and is_self_attr(t.comparators[0]):
            return norm(t.left.value)
        if isinstance(t, ast.Call) and is_self_attr(t.func) and len(t.args) == 1:
            h = fro.methods.get(t.func.attr)
            if h is not None:
                ps = h.call_params()
                rets = [r.value for r in walk_local(h.node) if isinstance(r, ast.Return) and r.value is not None]
                if len(ps) == 1 and len(rets) == 1 and isinstance(rets[0], ast.Compare) and isinstance(rets[0].ops[0], ast.In) \
                        and isinstance(rets[0].left, ast.Attribute) and rets[0].left.attr == "parent" \
                        and isinstance(rets[0].left.value, ast.Name) and rets[0].left.value.id == ps[0]:
                    return norm(t.args[0])
        return None

    for mname, m in sorted(fro.methods.items()):
        if not mname.startswith("_update_changes_caused_by"):
            continue
        cfg = CFG(m.node)
        # loop variables ranging over a tuple/list literal of parameters
        ranges = {}
        for l in walk_local(m.node):
            if isinstance(l, ast.For) and isinstance(l.target, ast.Name) and isinstance(l.iter, (ast.Tuple, ast.List)):
                ranges[l.target.id] = [norm(e) for e in l.iter.elts]
        tested_parents = set()
        for n in cfg.nodes:
            if n.kind != "stmt" or n.ast is None:
                continue
            for c in calls_in(n.ast):
                if not (isinstance(c.func, ast.Attribute) and c.func.attr.startswith("add_") and c.args):
                    continue
                n136 += 1
                a0 = c.args[0]
                gs = cfg.guards(n.id)
                if isinstance(a0, ast.Attribute) and a0.attr == "parent":
                    subj = norm(a0.value)
                    ok = any(pol and parent_test_subject(t) == subj for t, pol in gs)
                    what = f"add_changed({ast.unparse(a0)}) is guarded by the test that the parent of {ast.unparse(a0.value)} is watched"
                    bad = (f"{mname}: reports {ast.unparse(a0)} as changed under a test on a different resource "
                           f"({[ast.unparse(t) for t, p in gs if parent_test_subject(t)]}): the parent folder of the resource actually tested is never "
                           "reported, so a cached package keeps a stale child table")
                    # independence: the report for one resource's parent must not depend on the outcome of the
                    # parent test of ANOTHER resource (an `elif` makes the destination's parent unreported whenever
                    # the source's parent is watched too)
                    foreign = [t for t, pol in gs if parent_test_subject(t) not in (None, subj)]
                    if ok and foreign:
                        ok = False
                        bad = (f"{mname}: the report of {ast.unparse(a0)} is control-dependent on the parent test of another resource "
                               f"({ast.unparse(foreign[0])}): when both parents are watched only one of them is reported as changed, and the other "
                               "package keeps a stale child table")
                    if ok:
                        tested_parents |= set(ranges.get(a0.value.id, [subj])) if isinstance(a0.value, ast.Name) else {subj}
                else:
                    subj = norm(a0)
                    in_loop = [l for l in cfg.loop_guards(n.id)]
                    ok = any(pol and isinstance(t, ast.Compare) and isinstance(t.ops[0], ast.In) and norm(t.left) == subj for t, pol in gs) or \
                        any(isinstance(l, ast.For) and norm(l.target).replace("Store", "Load") == subj for l in in_loop)
                    what = f"{c.func.attr}({ast.unparse(a0)}) is guarded by a membership test on the same resource"
                    bad = f"{mname}: {c.func.attr}({ast.unparse(a0)}) is not guarded by a test that this very resource is watched"
                # independence (general form): a report must not be control-dependent on the FAILURE of a watched-test of
                # another resource (an `elif` chain): the file and its folder can both be watched, and both must be told
                neg = [t for t, pol in gs if not pol and (
                    (isinstance(t, ast.Compare) and len(t.ops) == 1 and isinstance(t.ops[0], ast.In) and norm(t.left) != norm(a0)) or
                    (isinstance(t, ast.Call) and parent_test_subject(t) is not None))]
                if ok and neg:
                    ok = False
                    bad = (f"{mname}: {c.func.attr}({ast.unparse(a0)}) is only reached when `{ast.unparse(neg[0])}` is false: when the other resource is "
                           "watched too (a module and its package both are, once both were looked up) this one is never reported, and the cached "
                           "package/module keeps answering from stale data")
                res.add("R13.6", f"{mname}|{c.func.attr}({ast.unparse(a0)})", ok, f"{m.unit.rel}:{c.lineno}", what if ok else bad)
        if mname.endswith("_moved"):
            ps = [norm(ast.Name(id=p, ctx=ast.Load())) for p in param_names(m.node)[2:4]]
            missing = [p for p in ps if p not in tested_parents]
            res.add("R13.6", f"{mname}|both-parents", not missing, m.where,
                    "a move reports the (watched) parent folders of both the source and the destination as changed" if not missing else
                    "a move does not report the watched parent folder of " + ("the destination" if len(missing) == 1 and missing[0] == ps[-1] else "both ends")
                    + " as changed: a package whose folder received a moved module keeps answering from its old child table")
    res.floor("R13.6", "report calls in the filtered observer", n136, 6)

    # ---- R13.5 raw per-file observers and folder events
    n135 = 0
    for site, (need, must_filter, reason) in sorted(REQUIRED.items()):
        if must_filter:
            continue
        f = idx.need_func(site)
        if f.cls is None:
            continue
        for c in calls_in(f.node):
            if idx.resolve(f.unit.modname, c.func) != ro.qualname:
                continue
            passed = {}
            for i, a in enumerate(c.args):
                if i < len(ro_params):
                    passed[ro_params[i]] = a
            for k in c.keywords:
                passed[k.arg] = k.value
            for ev in ("moved", "removed"):
                h = passed.get(ev)
                if h is None or not is_self_attr(h):
                    continue
                hm = idx.find_method(f.cls.qualname, h.attr)
                if hm is None:
                    continue
                if site.endswith("_init_automatic_soa"):
                    continue  # not a per-file index: re-analysis trigger only
                n135 += 1
                # does the handler do anything when resource.is_folder() is true?
                hcfg = CFG(hm.node)
                rp = first_param(hm.node)
                folder_tests = [n for n in hcfg.nodes if n.kind == "test" and isinstance(n.ast, ast.Call)
                                and call_name(n.ast) == "is_folder" and isinstance(n.ast.func.value, ast.Name)
                                and n.ast.func.value.id == rp]
                effect_nodes = [n for n in hcfg.nodes if n.kind == "stmt" and not isinstance(n.ast, (ast.Return, ast.Pass))
                                and not (isinstance(n.ast, ast.Expr) and isinstance(n.ast.value, ast.Constant))]
                ok = True
                for t in folder_tests:
                    tgt = [b for b, l in hcfg.succ[t.id] if l == "true"]
                    if tgt:
                        reach = hcfg.reachable(tgt[0])
                        if not any(e.id in reach for e in effect_nodes):
                            ok = False
                construct = f"{f.cls.qualname.split('.', 2)[-1]}.{hm.name}|{ev}"
                res.add("R13.5", construct, ok, hm.where,
                        f"handler for {ev} acts on folder events too (or invalidates wholesale)" if ok else
                        f"{f.cls.name}.{hm.name} (raw observer, per-module index) returns without doing anything when a *folder* is {ev}: "
                        "moving or removing a package leaves its modules' names in the index",
                        function=hm.qualname)
    res.floor("R13.5", "raw per-file moved/removed handlers", n135, 4)

    # ---- R13.7 (=R09.7) only unignored resources enter the cached file listing
    from .common import file_list_filter_rule

    file_list_filter_rule(ctx, res, "R13.7")

    no_negative_cache_rule(ctx, res, "R13.8")

    # ---- R13.9 object-lifetime caches (saveit/cacheit/cached) may only hold what depends on the object's own source.
    # Attribute tables that include names of OTHER modules (star imports, base classes, __init__ names) live in
    # concluded-data cells precisely so that forget_all_data() can reset them; a saveit copy of such a table is never reset.
    CONCLUDED = {"_get_concluded_attributes", "_get_concluded_data", "get_attributes", "get_attribute", "_get_init_names",
                 "get_superclasses", "_get_bases", "star_imports"}
    n139 = 0
    for q, c in sorted(idx.classes.items()):
        if c.unit.modname not in ("rope.base.pyobjects", "rope.base.pyobjectsdef", "rope.base.pyscopes", "rope.base.pynames", "rope.base.pynamesdef"):
            continue
        for mname, m in sorted(c.methods.items()):
            if not any(d.split(".")[-1] in ("saveit", "cacheit", "cached") for d in m.decorator_names()):
                continue
            n139 += 1
            seen, todo, hit = set(), [m], None
            while todo and hit is None:
                g = todo.pop()
                if g.qualname in seen:
                    continue
                seen.add(g.qualname)
                for cc in calls_in(g.node):
                    cn = call_name(cc)
                    if cn in CONCLUDED and is_self_attr(cc.func):
                        hit = (g, cc)
                        break
                    if is_self_attr(cc.func):
                        h = idx.find_method(q, cn)
                        if h is not None:
                            todo.append(h)
                for x in ast.walk(g.node):
                    if hit is None and is_self_attr(x) and x.attr in CONCLUDED and x.attr == "star_imports":
                        hit = (g, x)
            res.add("R13.9", f"{c.name}.{mname}|cache-holds-own-data-only", hit is None, m.where,
                    "the cached value depends on the object's own source only" if hit is None else
                    f"{c.name}.{mname} is cached for the lifetime of the object (@{[d for d in m.decorator_names()][0]}) but is computed from "
                    f"concluded data ({ast.unparse(hit[1])[:50]} in {hit[0].name}): when another module changes, forget_all_data() resets the concluded cells "
                    "but not this copy, so the long-lived project keeps answering with the old names while a fresh project sees the new ones",
                    function=m.qualname)
    res.floor("R13.9", "object-lifetime caches in the object model", n139, 4)


def _observer_constructions(idx, modname: str, fnode, ro_qual: str, ro_params):
    """[(call, {event: callback expression})] for every observer built in fnode: `ResourceObserver(changed=cb, ...)` itself, or a
    call of a function of the module that only wraps it -- `def _observer_of(callback, *events): return
    ResourceObserver(**dict.fromkeys(events, callback))` called as `_observer_of(cb, "created", "moved")`"""
    out = []
    from .common import _subst_single_locals
    for c in calls_in(fnode):
        # `mod = rope.base.resourceobserver ... mod.ResourceObserver(...)`: a local that names the module is read through
        if idx.resolve(modname, c.func) == ro_qual or idx.resolve(modname, _subst_single_locals(fnode, c.func)) == ro_qual:
            passed = {}
            for i, a in enumerate(c.args):
                if i < len(ro_params):
                    passed[ro_params[i]] = a
            for k in c.keywords:
                if k.arg:
                    passed[k.arg] = k.value
            out.append((c, passed))
            continue
        if isinstance(c.func, ast.Name):
            w = idx.functions.get(f"{modname}.{c.func.id}")
            if w is None or w.node.args.vararg is None:
                continue
            rets = [r.value for r in walk_local(w.node) if isinstance(r, ast.Return) and r.value is not None]
            if len(rets) != 1 or not (isinstance(rets[0], ast.Call) and idx.resolve(modname, rets[0].func) == ro_qual):
                continue
            star = [k.value for k in rets[0].keywords if k.arg is None]
            if len(star) != 1 or not (isinstance(star[0], ast.Call) and (dotted(star[0].func) or "").endswith("fromkeys") and len(star[0].args) == 2
                                      and isinstance(star[0].args[0], ast.Name) and star[0].args[0].id == w.node.args.vararg.arg and isinstance(star[0].args[1], ast.Name)):
                continue
            ps = [a.arg for a in w.node.args.args]
            cbp = star[0].args[1].id
            if cbp not in ps or ps.index(cbp) >= len(c.args):
                continue
            cb = c.args[ps.index(cbp)]
            events = [a.value for a in c.args[len(ps):] if isinstance(a, ast.Constant) and isinstance(a.value, str)]
            if len(events) == len(c.args[len(ps):]):
                out.append((c, {e: cb for e in events}))
    return out


def _structure_observer_rule(ctx, res) -> None:
    """R13.15: what a module CONCLUDED (inferred objects, resolved imports) can depend on any resource of the project: `import m`
    resolves differently once some file is created as, moved to, moved away from or removed at `m.py` -- whether or not that
    file was ever analysed.  A filtered observer reports only watched resources, so the reset of concluded data
    (`forget_all_data`) hangs on an UNFILTERED ResourceObserver that PyCore registers with the project, and that observer
    has a callback reaching the reset for each of the four events: created, moved, removed, validate.  The moved callback
    takes (resource, new_resource)."""
    from ..core import call_name, calls_in, is_self_attr, param_names
    idx = ctx.idx
    pc = idx.need_class("rope.base.pycore.PyCore")

    def reaches_reset(mname: str, seen=None) -> bool:
        seen = seen or set()
        if mname in seen or mname not in pc.methods:
            return False
        seen.add(mname)
        for c in calls_in(pc.methods[mname].node):
            if call_name(c) == "forget_all_data":
                return True
        # the reset written out: a loop over ALL cached modules (`...module_map.values()`) that resets each
        for lp in walk_local(pc.methods[mname].node):
            if isinstance(lp, ast.For) and any(isinstance(a, ast.Attribute) and a.attr == "module_map" for a in ast.walk(lp.iter)) \
                    and isinstance(lp.target, ast.Name) and any(
                        isinstance(c, ast.Call) and call_name(c) == "_forget_concluded_data" and isinstance(c.func, ast.Attribute)
                        and isinstance(c.func.value, ast.Name) and c.func.value.id == lp.target.id for st in lp.body for c in ast.walk(st)):
                return True
        for c in calls_in(pc.methods[mname].node):
            if is_self_attr(c.func) and reaches_reset(c.func.attr, seen):
                return True
        return False

    best = None
    n = 0
    for m in pc.methods.values():
        assigned = {}
        for x in walk_local(m.node):
            if isinstance(x, ast.Assign) and len(x.targets) == 1 and isinstance(x.targets[0], ast.Name):
                assigned.setdefault(x.targets[0].id, []).append(x)
        filtered = {a.id for c in calls_in(m.node) if call_name(c) == "FilteredResourceObserver" for a in c.args if isinstance(a, ast.Name)}
        ro_ = idx.need_class("rope.base.resourceobserver.ResourceObserver")
        built = {id(c): passed for c, passed in _observer_constructions(idx, m.unit.modname, m.node, ro_.qualname, param_names(ro_.methods["__init__"].node)[1:])}
        for x in walk_local(m.node):
            if not (isinstance(x, ast.Assign) and isinstance(x.value, ast.Call) and id(x.value) in built and isinstance(x.targets[0], ast.Name)):
                continue
            name = x.targets[0].id
            if name in filtered or not any(call_name(c) == "add_observer" and c.args and isinstance(c.args[0], ast.Name) and c.args[0].id == name for c in calls_in(m.node)):
                continue
            events = {}
            for karg, v in built[id(x.value)].items():
                if isinstance(v, ast.Name):  # a callback held in a local: the binding in force at the construction
                    before = [b for b in assigned.get(v.id, []) if b.lineno < x.lineno]
                    if before:
                        v = max(before, key=lambda b: b.lineno).value
                if is_self_attr(v) and reaches_reset(v.attr):
                    events[karg] = v.attr
            if events:
                n += 1
                if best is None or len(events) > len(best[1]):
                    best = (x, events, m)
    if best is None:
        raise AnalysisError("anchor=PyCore: no unfiltered ResourceObserver whose callbacks reset the concluded data")
    x, events, m = best
    missing = sorted({"created", "moved", "removed", "validate"} - set(events))
    bad_sig = None
    if "moved" in events:
        cb = pc.methods[events["moved"]]
        if len(param_names(cb.node)) < 3:
            bad_sig = f"{cb.name} takes one resource, the moved event passes two"
    ok = not missing and bad_sig is None
    res.add("R13.15", "PyCore|concluded-data-reset-on-every-structural-event", ok, f"{m.unit.rel}:{x.lineno}",
            "the unfiltered observer resets the concluded data on created, moved, removed and validate" if ok else
            (f"the unfiltered observer that resets the concluded data is not registered for {missing}" if missing else bad_sig) +
            ": a resource that was never analysed and is moved to (or away from, or removed at) the place an import of an analysed module points to changes what "
            "that import means, and nothing forgets the old conclusion -- the long-lived project keeps answering 'unresolved' (or the old module) where a "
            "fresh one resolves it", function=m.qualname, events=sorted(events))


def _index_only_modules_rule(ctx, res) -> None:
    """R13.16: the auto-import index maps names to MODULES.  `generate_cache` collects Python files only; the observer that
    keeps the index current must hold the same line: in its per-file handlers (`_changed`, `_moved`, `_removed`) every call
    that indexes a resource (`update_resource`) or drops a module's names (`_del_if_exist`) for a single file is reached only
    under a test that the file is a Python file (a suffix test or `is_python_file`, directly or in a method of the class)."""
    from ..cfg import CFG
    idx = ctx.idx
    ai = idx.need_class("rope.contrib.autoimport.sqlite.AutoImport")

    def is_py_test(t) -> bool:
        texts = [t]
        for c in ast.walk(t):
            if isinstance(c, ast.Call) and is_self_attr(c.func):
                m = idx.find_method(ai.qualname, c.func.attr)
                if m is not None:
                    texts.append(m.node)
        for tt in texts:
            for x in ast.walk(tt):
                if isinstance(x, ast.Call) and call_name(x) == "is_python_file":
                    return True
                if isinstance(x, ast.Call) and call_name(x) == "endswith" and x.args and isinstance(x.args[0], ast.Constant) and x.args[0].value == ".py":
                    return True
        return False

    n = 0
    for hname in ("_changed", "_moved", "_removed"):
        h = ai.methods.get(hname)
        if h is None:
            continue
        cfg = CFG(h.node)
        for nd in cfg.nodes:
            if nd.kind != "stmt" or nd.ast is None:
                continue
            for c in calls_in(nd.ast):
                if not (is_self_attr(c.func) and c.func.attr in ("update_resource", "_del_if_exist")):
                    continue
                # (in a loop over the Python files of a folder the elements are Python files by construction)
                if any(isinstance(l, ast.For) and any(call_name(k) == "_python_files_in" for k in ast.walk(l.iter)) for l in cfg.loop_guards(nd.id)):
                    continue
                n += 1
                ok = any(pol and is_py_test(t) for t, pol in cfg.guards(nd.id))
                res.add("R13.16", f"AutoImport.{hname}|only-python-files-are-indexed#{n}", ok, f"{h.unit.rel}:{c.lineno}",
                        "the file is indexed (or dropped) only if it is a Python file" if ok else
                        f"`{ast.unparse(c)[:50]}` runs for any file that is changed, moved or removed through rope: after `notes.txt` was written with `def fn(): pass` the "
                        "index offers `from notes import fn`, which a freshly generated index does not contain", function=h.qualname)
    res.floor("R13.16", "per-file index updates in the observer handlers", n, 3)


def _cell_registration_rule(ctx, res) -> None:
    """R13.18: what a module concluded lives in cells (`_ConcludedData`); `forget_all_data()` resets exactly the cells that stand in the
    module's list (`concluded_data`).  A cell that can hold a conclusion must therefore be in that list WHATEVER the conclusion
    is: an empty dict ("this module defines nothing through its star imports") or an empty list ("no superclasses") is a
    conclusion like any other and goes stale in the same way.  Every `append` to the list the reset iterates (or to the
    attribute of a cell that was given that list) is either unconditional or conditional only on identity tests with None:
    never on the truth value of the data stored."""
    idx = ctx.idx
    mod = "rope.base.pyobjects"
    pm = idx.need_class(f"{mod}._PyModule")
    fg = pm.methods.get("_forget_concluded_data")
    if fg is None:
        raise AnalysisError("anchor=_PyModule._forget_concluded_data not found")
    lists = {x.attr for x in ast.walk(fg.node) if is_self_attr(x)}
    cell = idx.need_class(f"{mod}._ConcludedData")
    # attributes of a cell that hold the owner's list: constructor parameters stored under self.<attr>, where some construction passes self.<list>
    init = cell.methods.get("__init__")
    cell_attrs = set()
    if init is not None:
        ps = param_names(init.node)[1:]
        passed = set()
        for f in idx.functions.values():
            if f.unit.modname != mod:
                continue
            for c in calls_in(f.node):
                if call_name(c) == cell.name:
                    for i, a in enumerate(c.args):
                        if is_self_attr(a) and a.attr in lists and i < len(ps):
                            passed.add(ps[i])
                    for k in c.keywords:
                        if is_self_attr(k.value) and k.value.attr in lists:
                            passed.add(k.arg)
        for x in walk_local(init.node):
            if isinstance(x, ast.Assign) and isinstance(x.value, ast.Name) and x.value.id in passed:
                cell_attrs |= {t.attr for t in x.targets if is_self_attr(t)}
    n = 0
    for c_, attrs in ((pm, lists), (cell, cell_attrs)):
        for m in c_.methods.values():
            cfg = None
            for call in calls_in(m.node):
                if not (isinstance(call.func, ast.Attribute) and call.func.attr in ("append", "add") and is_self_attr(call.func.value) and call.func.value.attr in attrs):
                    continue
                n += 1
                cfg = cfg or CFG(m.node)
                nds = cfg.node_containing(call)
                bad = None
                for nd in nds:
                    for t, pol in cfg.guards(nd.id):
                        none_test = isinstance(t, ast.Compare) and len(t.ops) == 1 and isinstance(t.ops[0], (ast.Is, ast.IsNot)) \
                            and isinstance(t.comparators[0], ast.Constant) and t.comparators[0].value is None
                        if not none_test and not cfg.is_named_condition(t):
                            bad = bad or t
                res.add("R13.18", f"{c_.name}.{m.name}|cell-registered-whatever-it-holds#{n}", bad is None, f"{m.unit.rel}:{call.lineno}",
                        "the cell is put on the list the reset iterates, whatever it holds" if bad is None else
                        f"`{ast.unparse(call)[:60]}` registers the cell for the reset only under `{ast.unparse(bad)[:60]}`: a cell that concluded something EMPTY ({{}} for a module whose "
                        "star import brings nothing, [] for a class without resolvable bases) is never registered, so forget_all_data() never clears it -- after the imported "
                        "module gains a class the warm project still answers 'nothing', a fresh one does not", function=m.qualname)
    res.floor("R13.18", "registrations of concluded-data cells", n, 1)


def no_negative_cache_rule(ctx, res, rule: str) -> None:
    """R13.8 (= R02.25): a failed module lookup is not remembered -- neither in the concluded-data cell nor in an attribute of the
    name object.  Concluded data is dropped when a KNOWN module changes; the creation of the missing module is not such an event
    for a cell that holds a miss, and a plain attribute (`self._not_found = True`) is dropped by nothing at all: the import stays
    unresolved for as long as the importing module is cached, while a freshly opened project resolves it."""
    idx = ctx.idx
    # ---- R13.8 a failed module lookup is not remembered.  Concluded data is dropped when a KNOWN module changes; the
    # creation of the missing module is not such an event, so a cached miss would outlive it (a fresh project resolves it)
    n138 = 0
    for f in sorted(idx.functions.values(), key=lambda f: f.qualname):
        if f.unit.modname != "rope.base.pynames":
            continue
        handlers = [h for t in walk_local(f.node) if isinstance(t, ast.Try) for h in t.handlers
                    if h.type is not None and "NotFound" in ast.unparse(h.type)]
        if not handlers:
            continue
        cfg = CFG(f.node)
        cell_sets = [nd for nd in cfg.nodes if nd.kind in ("stmt", "test") and nd.ast is not None and any(
            isinstance(c.func, ast.Attribute) and c.func.attr == "set" and is_self_attr(c.func.value) for c in calls_in(nd.ast))]
        if not cell_sets:
            continue
        # Since the repair behind R13.15 the concluded-data CELLS are reset when a file is created, moved or removed anywhere in the
        # project: a miss remembered IN THE CELL is dropped when the module appears, and is no longer a finding (the seed that did
        # this, C13-d, became harmless and was retired).  What nothing resets is a plain attribute of the name object.
        setters = [nd for nd in cfg.nodes if nd.kind == "stmt" and isinstance(nd.ast, (ast.Assign, ast.AugAssign, ast.AnnAssign)) and any(
            is_self_attr(t) for t in (nd.ast.targets if isinstance(nd.ast, ast.Assign) else [nd.ast.target]))]
        for h in handlers:
            n138 += 1
            hn = cfg.node_of_stmt(h)
            reach = cfg.reachable(hn.id) if hn is not None else set()
            hit = [nd for nd in setters if nd.id in reach]
            res.add(rule, f"{f.qualname.split('.', 3)[-1]}|no-negative-cache", not hit, f"{f.unit.rel}:{h.lineno}",
                    "the not-found path stores nothing into the concluded-data cell (the lookup is retried next time)" if not hit else
                    f"{f.name} stores a value into its cache cell or into an attribute of the name object (line {hit[0].lineno}) on the path through `except {ast.unparse(h.type)}`: the miss is "
                    "remembered, and since creating the missing module invalidates nothing, the long-lived project keeps the import unresolved while a "
                    "freshly opened project resolves it", function=f.qualname)
    res.floor(rule, "module lookups with a not-found handler next to a cache cell", n138, 1)


def _cached_module_is_read_from_its_file_rule(ctx, res) -> None:
    """R13.19: an entry of the module cache stands for the FILE: it is dropped when the observer reports the file changed, moved or removed.
    A module built from text that did not come from the file (a placeholder for a missing file, an editor buffer) has no such
    event coming -- when the file appears later the observer reports `created`, which the cache does not listen to.  In
    `_ModuleCache.get_pymodule` the module that is stored under the resource is constructed from the resource alone: the
    constructor gets no source text (no second positional argument, no `source_code=` other than None)."""
    idx = ctx.idx
    mc = idx.need_class("rope.base.pycore._ModuleCache")
    gp = mc.methods.get("get_pymodule")
    if gp is None:
        raise AnalysisError("anchor=_ModuleCache.get_pymodule missing")
    node = common.inlined(idx, gp)
    stored = {x.value.id for x in walk_local(node) if isinstance(x, ast.Assign) and isinstance(x.value, ast.Name)
              and any(isinstance(t, ast.Subscript) and is_self_attr(t.value, "module_map") for t in x.targets)}
    n = 0
    for x in walk_local(node):
        if not (isinstance(x, ast.Assign) and isinstance(x.value, ast.Call) and call_name(x.value) == "PyModule"
                and any(isinstance(t, ast.Name) and t.id in stored for t in x.targets)):
            continue
        n += 1
        c = x.value
        given = list(c.args[1:2]) + [k.value for k in c.keywords if k.arg == "source_code"]
        bad = [g for g in given if not (isinstance(g, ast.Constant) and g.value is None)]
        res.add("R13.19", f"_ModuleCache.get_pymodule|cached-module-is-read-from-its-file#{n}", not bad, f"{gp.unit.rel}:{c.lineno}",
                "the module stored in the cache is built from the resource alone" if not bad else
                f"the module stored under the resource is built from `{ast.unparse(bad[0])}`, text that does not come from the file: such an entry (an empty module for a file that is "
                "not there yet) is dropped only by changed / moved / removed events -- when the file comes into being (a rename onto the path, undo of a rename, an external "
                "restore) the observer reports `created`, nothing drops the entry, and the warm project answers with the empty module for good", function=gp.qualname)
    res.floor("R13.19", "module constructions stored in the module cache", n, 1)


def _write_that_creates_rule(ctx, res) -> None:
    """R13.20: `fscommands.write(path, data)` opens the path for writing: it CREATES the file when it is not there.  The undo of a change
    to a file that was meanwhile removed outside rope (and the redo, and a change rebuilt from the saved history) arrives at
    `_ResourceOperations.write_file` for a file that does not exist.  The set of files of the project then grows, and the caches that
    answer "which files are there" (the file list, the structure observer behind concluded data) listen to `created`, not to `changed`
    of a file.  So: in every resource operation that writes, a `resource_created(<the resource>)` notification stands after the write,
    under nothing but a test that the resource did NOT exist -- a test evaluated BEFORE the write (afterwards it always exists) -- or
    under no test at all."""
    idx = ctx.idx
    ops = idx.need_class("rope.base.change._ResourceOperations")
    n = 0
    for name, m in sorted(ops.methods.items()):
        if name.startswith("_"):
            continue
        cmd_attrs, cmd_getters = _command_sources(ops)
        mnode = common.inline_private_calls(idx, m, keep=tuple(cmd_getters))
        cmd_locals = {t.id for a in walk_local(mnode) if isinstance(a, ast.Assign) and isinstance(a.value, ast.Call) and is_self_attr(a.value.func)
                      and a.value.func.attr in cmd_getters for t in a.targets if isinstance(t, ast.Name)}

        def is_command(r) -> bool:
            return (isinstance(r, ast.Name) and r.id in cmd_locals) or (is_self_attr(r) and r.attr in cmd_attrs) \
                or (isinstance(r, ast.Call) and is_self_attr(r.func) and r.func.attr in cmd_getters)

        writes = [c for c in calls_in(mnode) if isinstance(c.func, ast.Attribute) and c.func.attr == "write" and is_command(c.func.value)]
        if not writes:
            continue
        params = m.call_params()
        if not params:
            continue
        r0 = params[0]
        cfg = CFG(mnode)
        for w in writes:
            n += 1
            wn = cfg.node_containing(w)
            if not wn:
                raise AnalysisError(f"R13.20: the write call of _ResourceOperations.{name} has no CFG node")
            wn = wn[0]
            wguards = {(ast.unparse(t), pol) for t, pol in cfg.guards(wn.id)}

            def is_exists(t) -> bool:
                return isinstance(t, ast.Call) and isinstance(t.func, ast.Attribute) and t.func.attr == "exists" \
                    and isinstance(t.func.value, ast.Name) and t.func.value.id == r0 and not t.args

            bad = "no path after the write reports resource_created"
            for lp in cfg.nodes:
                if lp.kind != "loop" or not _is_observer_loop(lp.ast) or not cfg.exists_path(wn.id, lp.id):
                    continue
                c = _notify_kinds(lp.ast).get("created")
                if c is None or [a.id for a in c.args if isinstance(a, ast.Name)] != [r0]:
                    continue
                cn = cfg.node_containing(c)
                if not cn:
                    continue
                gs = [(t, pol) for t, pol in cfg.guards(cn[0].id) if (ast.unparse(t), pol) not in wguards]
                tests = [(t, pol) for t, pol in gs if is_exists(t)]
                others = [(t, pol) for t, pol in gs if not is_exists(t) and not cfg.is_named_condition(t)]
                if others:
                    bad = f"resource_created is reported only under `{ast.unparse(others[0][0])}`"
                    continue
                if any(pol for _, pol in tests):
                    bad = "resource_created is reported when the file DID exist"
                    continue
                def evaluated_at(t):
                    # a test that is the definition of a named condition (`created = not r.exists()` ... `if created:`) is
                    # evaluated where the name is bound, not where the name is tested
                    ns = cfg.node_containing(t)
                    return [x for x in ns if x.kind == "cond"] or ns

                late = [t for t, _ in tests if any(cfg.exists_path(wn.id, x.id) for x in evaluated_at(t))]
                if late:
                    bad = "the existence test is evaluated after the write, when the file always exists"
                    continue
                if not tests and gs:
                    bad = f"resource_created stands under `{ast.unparse(gs[0][0])}`, which is not a test that the file did not exist"
                    continue
                bad = None
                break
            res.add("R13.20", f"_ResourceOperations.{name}|a-write-that-creates-reports-created#{n}", bad is None, f"{m.unit.rel}:{w.lineno}",
                    "the write reports `created` on the paths on which the file did not exist before it" if bad is None else
                    f"_ResourceOperations.{name}: {bad}.  `write` creates the file when it is not there (undo / redo of a change to a file that was "
                    "removed outside rope; a change rebuilt from the saved history): the project then has one more file, but the observers hear "
                    "`changed` only -- the file list and the structure observer keep answering without the file (a rename misses it silently)",
                    function=m.qualname)
    res.floor("R13.20", "writing resource operations", n, 1)
