"""C01 -- rename preserves the program (structural clauses R01.1-R01.24)."""
from __future__ import annotations

import ast
from typing import List, Optional, Set

from .. import vgc as vgc_mod
from ..cfg import CFG
from ..core import AnalysisError, call_name, calls_in, const_str, is_self_attr, walk_local, first_param
from ..grammar import REDIRECTS, G

EXPLANATION = (
    "R01.1: the enclosing-scope lookup chain (Scope.lookup -> parent._propagated_lookup -> get_propagated_names, "
    "resolved through the MRO of every scope class) consults only propagated names for enclosing scopes, and the "
    "class scope's propagated names are empty on every path, so a method body never resolves a free name to a class "
    "attribute.  R01.2: global/nonlocal declarations have binding handlers in the scope visitors (visitor x grammar "
    "coverage).  R01.3: the single-file shortcut of rename returns true only under 'holding scope is a function' and "
    "'the name is an assigned name'.  R01.4: inside call parentheses the offset evaluator never falls through from the keyword branch to generic "
    "scope evaluation, and outside any call it does (the keyword test is textual and also holds for tuple targets).  R01.5: ChangeCollector applies edits sorted by offset over the original text with an advancing "
    "watermark and keeps the tail.  R01.6: a module rename appends '.py' exactly for files.  R01.7: name tables merged from several sources give the winner the language prescribes (last star import, first base class).  R01.8: an absolute module name is searched on the source folders and the python path before the importer's own folder.  R01.9 (=R15.7): target-name collectors never bind the object of an attribute/subscript target.  Alpha-equivalence of the rewritten program is a runtime fact and is not decided."
    ' R01.11: `__init__` is answered as the function a call runs only when the called object is a class (an instance runs `__call__`).'
)
EXPLANATION += ' R01.17 (=R02.22=R06.14): a line attribute and a column attribute used together belong to the same end of the same node; a column is converted on its own line.'
EXPLANATION += " R01.14: identifier characters are the interpreter's (worder.is_identifier_char; no home-made isalnum test; no \\b next to the name).  R01.15 (=R15.17): a `:=` target in a comprehension binds in the containing scope.  R01.16 (=R02.21): names in decorators, defaults, annotations and bases are evaluated in the parent scope."
EXPLANATION += ' R01.13: a `col_offset`/`end_col_offset` of an AST node (UTF-8 bytes) reaches a character offset only through codeanalyze.column_to_offset; it is otherwise only compared, or is the start column of a node tested to be a statement.'
EXPLANATION += " R01.19: in the anchored modules and the shared text utilities no source text is cut with str.splitlines() (it breaks at form feed, \x1c-\x1e, \x85, U+2028/9; rope's and the ast's line numbers count \n only)."
EXPLANATION += " R01.22: inside the loop over the files of a refactoring no handler swallows an error (a file is never silently left out of a multi-file change)."
EXPLANATION += " R01.23: Rename adds the move of a module's file only under a test that the renamed word is the module's own name.  R01.24: no strip / lstrip / rstrip call in rope has an argument that spells an affix (`.py`)."
EXPLANATION += " R01.12: the comprehension scope seeds its table from what its parent propagates to nested scopes (nothing for a class body), never from all names of the parent."
EXPLANATION += " R01.25 (=R02.28): a name of __init__.py is left out of the names of the package only as the self-import of a submodule."
ASSUMPTIONS = ["scope classes are the subclasses of rope.base.pyscopes.Scope found in the working tree"]

SCOPE = "rope.base.pyscopes.Scope"


def class_scope_rule(ctx, res, rule: str) -> None:
    idx = ctx.idx
    idx.need_class(SCOPE)
    scopes = [SCOPE] + idx.subclasses(SCOPE)
    res.floor(rule, "scope classes", len(scopes), 5)
    lookup = idx.need_func(f"{SCOPE}.lookup")

    def called(fn) -> List[ast.Call]:
        return [c for c in calls_in(fn.node) if isinstance(c.func, ast.Attribute)]

    # the private method the chain continues with on the parent: identified by its ROLE (it is what `lookup` calls on
    # `self.parent` and it reads get_propagated_names), not by its name
    cands = [c.func.attr for c in called(lookup) if isinstance(c.func.value, ast.Attribute) and c.func.value.attr == "parent"]
    PL = next((m for m in cands if m != "lookup" and idx.find_method(SCOPE, m) is not None
               and any(c.func.attr == "get_propagated_names" for c in called(idx.find_method(SCOPE, m)))), "_propagated_lookup")
    plook = idx.need_func(f"{SCOPE}.{PL}")

    # (a) lookup: own names, then parent's *propagated* lookup
    names = {c.func.attr for c in called(lookup)}
    deleg = [c for c in called(lookup) if isinstance(c.func.value, ast.Attribute) and c.func.value.attr == "parent"]
    ok = names <= {"get_names", PL} and bool(deleg) and all(c.func.attr == PL for c in deleg)
    res.add(rule, "Scope.lookup", ok, lookup.where,
            "lookup consults its own names and delegates to the parent's propagated lookup only" if ok else
            f"Scope.lookup delegates to the parent through {sorted(c.func.attr for c in deleg) or sorted(names)}: an enclosing class scope's "
            "own names become visible from nested functions (a method body would resolve a free name to a class attribute)")
    # (b) propagated lookup reads only propagated names
    names = {c.func.attr for c in called(plook)}
    deleg = [c for c in called(plook) if isinstance(c.func.value, ast.Attribute) and c.func.value.attr == "parent"]
    ok = names <= {"get_propagated_names", PL} and "get_propagated_names" in names \
        and all(c.func.attr == PL for c in deleg)
    res.add(rule, "Scope._propagated_lookup", ok, plook.where,
            "_propagated_lookup reads no name table other than get_propagated_names()" if ok else
            f"Scope._propagated_lookup reads {sorted(names)}: enclosing-scope lookup no longer goes through the propagated names only")
    # (c) class scope propagates nothing; (d) nobody else overrides the chain
    n_class = 0
    for q in scopes[1:]:
        c = idx.classes[q]
        kind = None
        gk = c.methods.get("get_kind")
        if gk:
            for r in walk_local(gk.node):
                if isinstance(r, ast.Return) and const_str(r.value):
                    kind = const_str(r.value)
        for mname in ("lookup", PL):
            if mname in c.methods:
                res.undecided(rule, f"{c.name}.{mname}", c.methods[mname].where, "scope subclass overrides the lookup chain")
        gp = c.methods.get("get_propagated_names")
        if kind == "Class":
            n_class += 1
            if gp is None:
                res.fail(rule, f"{c.name}.get_propagated_names", c.where,
                         f"{c.name} (kind 'Class') does not override get_propagated_names: class attributes propagate to nested scopes")
                continue
            rets = [r for r in walk_local(gp.node) if isinstance(r, ast.Return)]
            empty = bool(rets) and all(
                (isinstance(r.value, ast.Dict) and not r.value.keys) or
                (isinstance(r.value, ast.Call) and call_name(r.value) == "dict" and not r.value.args and not r.value.keywords)
                for r in rets)
            res.add(rule, f"{c.name}.get_propagated_names", empty, gp.where,
                    "class scope propagates no names on any path" if empty else
                    f"{c.name}.get_propagated_names can return a non-empty mapping: names defined in a class body become visible inside its methods")
        elif gp is not None:
            res.undecided(rule, f"{c.name}.get_propagated_names", gp.where, "non-class scope overrides propagated names")
    if n_class < 1:
        raise AnalysisError("anchor=class scope (Scope subclass whose get_kind returns 'Class') not found")


def check(ctx, res) -> None:
    _check_main(ctx, res)
    from .common import merge_precedence_rule, module_search_order_rule

    merge_precedence_rule(ctx, res, "R01.7")
    from .c02 import init_names_filter_rule

    init_names_filter_rule(ctx, res, "R01.25")
    module_search_order_rule(ctx, res, "R01.8")
    from .c15 import load_positions_rule

    load_positions_rule(ctx, res, "R01.9")
    from .c02 import _same_pyname_strength_rule

    _same_pyname_strength_rule(ctx, res, "R01.10")
    from .common import call_target_rule

    call_target_rule(ctx, res, "R01.11")
    from .c15 import comprehension_sees_parent_rule

    comprehension_sees_parent_rule(ctx, res, "R01.12")
    from .common import byte_column_rule, column_to_offset_anchor

    column_to_offset_anchor(ctx, res, "R01.13")
    byte_column_rule(ctx, res, "R01.13", ("rope.refactor.occurrences",))
    from .common import identifier_char_rule

    from .c15 import walrus_in_comprehension_rule

    walrus_in_comprehension_rule(ctx, res, "R01.15")
    from .c02 import header_expression_scope_rule

    header_expression_scope_rule(ctx, res, "R01.16")
    from .c02 import comprehension_iterable_scope_rule
    comprehension_iterable_scope_rule(ctx, res, "R01.18")
    from .c02 import decorators_above_the_statement_rule
    decorators_above_the_statement_rule(ctx, res, "R01.20")
    from .c09 import module_without_file_rule
    module_without_file_rule(ctx, res, "R01.21")
    _file_follows_its_own_name_only_rule(ctx, res)
    from .common import affix_strip_rule

    affix_strip_rule(ctx, res, "R01.24")
    from .common import position_pair_rule

    position_pair_rule(ctx, res, "R01.17", ("rope.refactor.occurrences", "rope.refactor.functionutils", "rope.base.evaluate", "rope.refactor.patchedast", "rope.base.codeanalyze"))
    identifier_char_rule(ctx, res, "R01.14", ("rope.refactor.occurrences", "rope.refactor.rename", "rope.base.worder"), occurrences=True)
    from .common import line_model_rule as _lm

    _lm(ctx, res, "R01.19", ('rope.refactor.rename', 'rope.refactor.occurrences', 'rope.base.evaluate', 'rope.base.pyscopes', 'rope.base.pyobjectsdef', 'rope.base.worder', 'rope.base.codeanalyze'))
    from .common import per_file_no_skip_rule as _pf

    _pf(ctx, res, "R01.22", ('rope.refactor.rename',))


def call_keyword_rule(ctx, res, rule: str) -> None:
    """R01.4 (shared with C20 as R20.11): a call keyword is never evaluated as a name of the calling scope, and a word that
    only LOOKS like one (the last target of `a, b = 1, 2`) still is."""
    idx = ctx.idx
    # ---- R01.4 a call keyword is never evaluated as a name of the calling scope
    g = idx.need_func("rope.base.evaluate.ScopeNameFinder.get_primary_and_pyname_at")
    cfg = CFG(g.node)
    kw_tests = [n for n in cfg.nodes if n.kind == "test" and isinstance(n.ast, ast.Call) and call_name(n.ast) == "is_function_keyword_parameter"]
    generic = [n for n in cfg.nodes if n.kind == "stmt" and isinstance(n.ast, ast.Return) and isinstance(n.ast.value, ast.Call)
               and call_name(n.ast.value).startswith("eval_str")]
    if not kw_tests or not generic:
        raise AnalysisError("anchor=get_primary_and_pyname_at: keyword-parameter test or generic scope evaluation not found")
    t = kw_tests[0]
    tgt = [b for b, l in cfg.succ[t.id] if l == "true"]
    LABS = {"", "true", "false", "return", "case", "nomatch"}
    # `is_function_keyword_parameter` is a textual test (word preceded by ',' or '(' and followed by '='): it also holds for
    # the targets of `a, b = 1, 2`.  So two things are necessary: (i) INSIDE call parentheses no path reaches the generic
    # scope evaluation, (ii) OUTSIDE any call a path to the generic evaluation exists (the word is an ordinary name).
    in_call_false = [(n.id, d, l) for n in cfg.nodes if n.kind == "test" and isinstance(n.ast, ast.Call) and call_name(n.ast) == "is_on_function_call_keyword"
                     for d, l in cfg.succ[n.id] if l == "false"]
    reach_all = cfg.reachable(tgt[0], labels=LABS) if tgt else set()
    reach_in_call = cfg.reachable(tgt[0], labels=LABS, avoid_edges=in_call_false) if tgt else set()
    leak = [n for n in generic if n.id in reach_in_call]
    res.add(rule, "get_primary_and_pyname_at|call-keyword", not leak, g.where,
            "inside call parentheses every exit of the keyword branch returns there: a keyword is never evaluated as a scope name" if not leak else
            "when the offset is a call keyword (f(width=...)) a path falls through to the generic scope evaluation: the keyword resolves to a same-named "
            "variable of the calling scope, so renaming that variable also rewrites the keyword and the callee receives a different keyword argument")
    through = [n for n in generic if n.id in reach_all]
    res.add(rule, "get_primary_and_pyname_at|non-call-falls-through", bool(through), g.where,
            "a word that only looks like a keyword (a tuple target `a, b = 1, 2`) still reaches the generic scope evaluation" if through else
            "every word that is preceded by ',' or '(' and followed by '=' is answered inside the keyword branch, although the test is textual and also "
            "holds for the targets of `a, b = 1, 2` / `for a, b in ...`: such a target is no longer resolvable, rename from its definition is refused and "
            "rename from a use rewrites only the uses (NameError)")



def _check_main(ctx, res) -> None:
    idx = ctx.idx
    class_scope_rule(ctx, res, "R01.1")

    # ---- R01.2 redirects (shared root cause with R15.3)
    v = vgc_mod.get(ctx)
    from .c15 import SCOPE_VISITORS, discover_openers

    openers = discover_openers(idx)
    full = v.reach(SCOPE_VISITORS["Global"], list(G.sums["stmt"]), scope_openers=openers)
    bound: Set[str] = set()
    for (vv, c) in full.pairs:
        bound |= full.bound_idents(vv, c)
    for c in REDIRECTS:
        ok = f"{c}.names" in bound
        h = v.handler(SCOPE_VISITORS["Function"], c)
        res.add("R01.2", c, ok, h.where if h else idx.classes[SCOPE_VISITORS["Function"]].where,
                f"{c} declarations bind the declared names to the outer binding" if ok else
                f"'{c.lower()} x' has no handler in the scope visitors: an assignment to x in the inner function is a different binding from the "
                "enclosing x, so renaming either one rewrites only part of the occurrences Python treats as the same variable")

    # ---- R01.3 local-only shortcut
    f = idx.need_func("rope.refactor.rename._is_local")
    p0 = first_param(f.node, skip_self=False)
    cfg = CFG(f.node)
    n = 0
    for node in cfg.nodes:
        if node.kind != "stmt" or not isinstance(node.ast, ast.Return) or node.ast.value is None:
            continue
        val = node.ast.value
        if isinstance(val, ast.Constant) and not val.value:
            continue
        n += 1
        conj = list(val.values) if isinstance(val, ast.BoolOp) and isinstance(val.op, ast.And) else \
            ([] if isinstance(val, ast.Constant) else [val])
        facts = conj + [t for t, pol in cfg.guards(node.id) if pol]
        kinds: Optional[Set[str]] = None
        assigned = False
        for t in facts:
            if isinstance(t, ast.Compare) and len(t.ops) == 1 and isinstance(t.left, ast.Call) and call_name(t.left) == "get_kind":
                if isinstance(t.ops[0], ast.Eq) and const_str(t.comparators[0]):
                    kinds = {const_str(t.comparators[0])} if kinds is None else kinds & {const_str(t.comparators[0])}
                elif isinstance(t.ops[0], ast.In) and isinstance(t.comparators[0], (ast.Tuple, ast.List, ast.Set)):
                    ks = {const_str(e) for e in t.comparators[0].elts}
                    kinds = ks if kinds is None else kinds & ks
            if isinstance(t, ast.Call) and call_name(t) == "isinstance" and len(t.args) == 2 \
                    and isinstance(t.args[0], ast.Name) and t.args[0].id == p0:
                k = t.args[1]
                names = [(e.attr if isinstance(e, ast.Attribute) else getattr(e, "id", "")) for e in (k.elts if isinstance(k, ast.Tuple) else [k])]
                if set(names) <= {"AssignedName"}:
                    assigned = True
        ok = kinds is not None and kinds <= {"Function"} and assigned
        res.add("R01.3", "_is_local", ok, f"{f.unit.rel}:{node.lineno}",
                "the shortcut answers true only for assigned names whose holding scope is a function" if ok else
                "rename._is_local can answer true "
                + (f"for scope kinds {sorted(kinds) if kinds else 'unrestricted'}" if not (kinds is not None and kinds <= {'Function'}) else "for names that are not plain assigned names")
                + ": a module-level, class-level or defined/imported name is then renamed in its own file only and every other module keeps the old name")
    if n < 1:
        raise AnalysisError("anchor=rename._is_local has no truthy return")

    call_keyword_rule(ctx, res, "R01.4")

    change_collector_rule(ctx, res, "R01.5")

    # ---- R01.6 renaming a module keeps its kind: '.py' is appended exactly when the resource is a file, and the new
    # location is built from the resource's own parent
    from .common import rename_module_step
    rm = rename_module_step(idx)
    cfg = CFG(rm.node)
    ext = [n for n in cfg.nodes if n.kind == "stmt" and isinstance(n.ast, (ast.Assign, ast.AugAssign)) and any(
        isinstance(x, ast.Constant) and x.value == ".py" for x in ast.walk(n.ast))]
    rparam = first_param(rm.node)
    ok = bool(ext) and all(any(isinstance(t, ast.Call) and call_name(t) == "is_folder" and isinstance(t.func.value, ast.Name)
                               and t.func.value.id == rparam and not pol for t, pol in cfg.guards(n.id)) for n in ext)
    parent_ok = any(isinstance(x, ast.Attribute) and x.attr == "parent" and isinstance(x.value, ast.Name) and x.value.id == rparam
                    for x in ast.walk(rm.node))
    res.add("R01.6", "_rename_module|extension", ok and parent_ok, rm.where,
            "'.py' is appended exactly when the renamed resource is a file, below the resource's own parent folder" if ok and parent_ok else
            "Rename._rename_module does not append '.py' exactly for files (or does not build the new location from the resource's parent): renaming a "
            "module produces a file that is no longer importable under the new name, or renames a package folder to 'name.py'")


def change_collector_rule(ctx, res, rule: str) -> None:
    """Every text-rewriting refactoring assembles its result with ChangeCollector.  For arbitrary insertion order the
    edits must be applied in offset order over the ORIGINAL text: sort before the loop, piece = text[watermark:start] +
    replacement, watermark = end, and the tail text[watermark:] is appended."""
    idx = ctx.idx
    gc = idx.need_func("rope.base.codeanalyze.ChangeCollector.get_changed")
    cfg = CFG(gc.node)
    loops = [n for n in cfg.nodes if n.kind == "loop" and isinstance(n.ast, ast.For) and any(is_self_attr(x, "changes") for x in ast.walk(n.ast.iter))]
    if not loops:
        raise AnalysisError("anchor=ChangeCollector.get_changed: loop over self.changes not found")
    lp = loops[0]
    sorted_inline = isinstance(lp.ast.iter, ast.Call) and call_name(lp.ast.iter) == "sorted"
    is_sort = lambda n: n.ast is not None and n.kind == "stmt" and any(
        isinstance(c.func, ast.Attribute) and c.func.attr == "sort" and is_self_attr(c.func.value, "changes") for c in calls_in(n.ast))
    ok_sort = sorted_inline or cfg.must_pass_through(cfg.entry.id, lp.id, is_sort)
    res.add(rule, "ChangeCollector|sorted", ok_sort, gc.where,
            "edits are sorted by offset before they are applied" if ok_sort else
            "ChangeCollector.get_changed applies the edits in insertion order: with edits added out of order the pieces overlap and text is duplicated or lost")
    # unpacked start/end/text of one change
    S = E = None
    for x in walk_local(lp.ast):
        if isinstance(x, ast.Assign) and isinstance(x.targets[0], ast.Tuple) and len(x.targets[0].elts) == 3:
            S, E = x.targets[0].elts[0].id, x.targets[0].elts[1].id
    if isinstance(lp.ast.target, ast.Tuple) and len(lp.ast.target.elts) == 3:
        S, E = lp.ast.target.elts[0].id, lp.ast.target.elts[1].id
    marks = {x.targets[0].id for x in walk_local(lp.ast) if isinstance(x, ast.Assign) and isinstance(x.targets[0], ast.Name)
             and isinstance(x.value, ast.Name) and x.value.id == E} if E else set()
    piece = any(isinstance(x, ast.Subscript) and is_self_attr(x.value, "text") and isinstance(x.slice, ast.Slice)
                and isinstance(x.slice.lower, ast.Name) and x.slice.lower.id in marks
                and isinstance(x.slice.upper, ast.Name) and x.slice.upper.id == S for x in ast.walk(lp.ast))
    tail = any(isinstance(x, ast.Subscript) and is_self_attr(x.value, "text") and isinstance(x.slice, ast.Slice)
               and isinstance(x.slice.lower, ast.Name) and x.slice.lower.id in marks and x.slice.upper is None
               for st in gc.node.body if st is not lp.ast for x in ast.walk(st))
    ok = bool(S) and bool(marks) and piece and tail
    res.add(rule, "ChangeCollector|pieces", ok, gc.where,
            "each piece is original[watermark:start] + replacement, the watermark advances to the edit's end, and the tail is kept" if ok else
            "ChangeCollector.get_changed does not assemble original[watermark:start] + replacement with watermark = end and the trailing "
            "original[watermark:]: untouched text between or after the edits is lost or duplicated")


def _file_follows_its_own_name_only_rule(ctx, res) -> None:
    """R01.23: Rename moves a module's FILE when the word that is renamed is the module's own name (`import mod` ... `mod`).  A name that is
    merely bound to the module -- the alias of `import mod as m`, the variable of `m = mod` -- is an ordinary name: renaming it
    rewrites its occurrences and leaves the file alone.  The call that adds the file move therefore stands under a test that
    compares the renamed word (`self.old_name`) with the module's name, not only under "the object is a module"."""
    from . import common
    idx = ctx.idx
    f = idx.need_func("rope.refactor.rename.Rename.get_changes")
    node = common.inlined(idx, f)
    cfg = CFG(node)
    n = 0
    for nd in cfg.nodes:
        if nd.ast is None or nd.kind not in ("stmt", "test") or not any(call_name(c) in (common.rename_module_step(idx).name, "MoveResource") for c in calls_in(nd.ast)):
            continue
        n += 1
        gs = common.plain_guards(cfg, nd.id)
        def compares_the_word(t) -> bool:
            texts = [t] + (common.flag_sources(cfg, node, t.id) if isinstance(t, ast.Name) else [])
            for c in ast.walk(t):  # the predicate may be a method of the class with several statements: read its body
                if isinstance(c, ast.Call) and is_self_attr(c.func) and f.cls is not None:
                    m = idx.find_method(f.cls.qualname, c.func.attr)
                    if m is not None:
                        texts.append(m.node)
            return any(isinstance(x, ast.Compare) and any(is_self_attr(y, "old_name") for y in ast.walk(x)) for tt in texts for x in ast.walk(tt))
        by_name = any(pol and compares_the_word(t) for t, pol in gs)
        res.add("R01.23", f"Rename.get_changes|file-moved-for-the-modules-own-name-only#{n}", by_name, f"{f.unit.rel}:{nd.lineno}",
                "the file is moved only under a test that the renamed word is the module's own name" if by_name else
                "the module's file is moved whenever the renamed name is BOUND to a module: Rename of the alias in `import mod as m` (or of `alias` in `alias = mod`) moves mod.py to the "
                "new name while `import mod` stays -- the program ends in ModuleNotFoundError", function=f.qualname)
    res.floor("R01.23", "places where Rename adds the move of the module's file", n, 1)
