"""C02 -- occurrence finding is exact (structural clauses R02.1-R02.26)."""
from __future__ import annotations

import ast
import tokenize
from typing import Dict, List, Optional, Set

from .. import fold, rca
from ..cfg import CFG
from ..core import AnalysisError, call_name, calls_in, const_str, is_self_attr, norm, walk_local, param_names

try:
    import re._parser as sre_parse
    import re._constants as sre_c
except ImportError:  # pragma: no cover
    import sre_parse
    import sre_constants as sre_c

EXPLANATION = (
    "R02.1: the binding-identity relation same_pyname is symmetric in its two parameters (AST normalised modulo "
    "commutativity, parameters swapped, compared) -- necessary for 'the answer does not depend on which occurrence was "
    "used to ask'.  R02.2: the folded textual candidate pattern is an ordered alternation of named groups with a "
    "comment, a string and an f-string alternative; because Python's alternation is ordered and a prefixed string "
    "literal starts where its prefix letter starts, those alternatives must come before the bare-word alternative "
    "(or the latter must exclude a following quote), otherwise a variable named like a string prefix matches inside "
    "the literal; and the scanner yields offsets only for the occurrence / f-string groups.  R02.3: occurrences are "
    "yielded only when a filter returned a truthy result, only the identity/hierarchy/unsure filters can return True, "
    "PyNameFilter returns True only under same_pyname, and create_finder installs a PyNameFilter for the queried "
    "binding on every path.  R02.4 (=R01.1): the enclosing-scope lookup chain skips class scopes.  R02.5 (=R15.7): target-name "
    "collectors never bind the object name of an attribute/subscript target.  R02.6: in every filter list, rejecting-only "
    "filters precede accepting ones (the first non-None verdict decides).  R02.7 (=R01.7): merged name tables give the winner the language "
    "prescribes.  R02.8 (=R01.8): absolute module names are searched on the path before the importer's own folder.  R02.9: the definition-header keyword table covers def, async def and class.  R02.10: a package's __init__ names take precedence over its submodules.  R02.11 (=R14.6): the line table that maps offsets to the interpreter's line numbers breaks lines at '\\n' only.  That each candidate evaluates to "
    "the right binding is otherwise not decided."
    ' R02.15 (=R01.11): `__init__` is the call target only of a class.'
)
EXPLANATION += ' R02.22: line/column pairs (see R01.17).'
EXPLANATION += " R02.19: identifier characters are the interpreter's.  R02.20 (=R15.17): walrus targets in comprehensions.  R02.21: header expressions of def / class are evaluated in the parent scope."
EXPLANATION += ' R02.18: a `col_offset`/`end_col_offset` of an AST node (UTF-8 bytes) reaches a character offset only through codeanalyze.column_to_offset; it is otherwise only compared, or is the start column of a node tested to be a statement.'
EXPLANATION += " R02.25 (=R13.8): a failed module lookup is remembered nowhere (cell or attribute): an import evaluated before its module existed resolves once the module is there."
EXPLANATION += " R02.26 (=R15.16): the comprehension scope seeds its table from what its parent propagates to nested scopes, never from all names of the parent (class attributes are invisible in the element and the conditions)."
EXPLANATION += " R02.27 (=R14.21): the string alternatives of the occurrence pattern take a letter for a string prefix only at a word start (the f of `if\"{x}\"` is none)."
EXPLANATION += " R02.28 (=R01.25): where PyPackage filters the names of __init__.py, a name is left out only under the conjunction of being a submodule name and being the self-import."
ASSUMPTIONS = ["re alternation is ordered (leftmost position, first alternative wins)",
               "the name searched for is a plain identifier (symbolic NAME in the folded pattern)"]

TF = "rope.refactor.occurrences._TextualFinder"


def _commutative_norm(node: ast.AST) -> str:
    """dump with operands of and/or/==/is and isinstance tuples sorted"""
    def conj(t) -> list:
        return [y for v in t.values for y in conj(v)] if isinstance(t, ast.BoolOp) and isinstance(t.op, ast.And) else [t]

    def rec(n) -> str:
        if isinstance(n, ast.If) and not n.orelse:
            # `if a: if b: X` is `if a and b: X`: collect the whole chain of else-less ifs into one conjunction
            tests, body = conj(n.test), n.body
            while len(body) == 1 and isinstance(body[0], ast.If) and not body[0].orelse:
                tests += conj(body[0].test)
                body = body[0].body
            return f"If(And({','.join(sorted(rec(t) for t in tests))});[{','.join(rec(x) for x in body)}])"
        if isinstance(n, ast.BoolOp):
            vals = conj(n) if isinstance(n.op, ast.And) else n.values
            return f"{type(n.op).__name__}({','.join(sorted(rec(v) for v in vals))})"
        if isinstance(n, ast.Compare) and len(n.ops) == 1 and isinstance(n.ops[0], (ast.Eq, ast.Is, ast.NotEq, ast.IsNot)):
            return f"{type(n.ops[0]).__name__}({','.join(sorted([rec(n.left), rec(n.comparators[0])]))})"
        if isinstance(n, ast.Tuple):
            return f"T({','.join(sorted(rec(e) for e in n.elts))})"
        if isinstance(n, ast.AST):
            parts = []
            for f, v in ast.iter_fields(n):
                if isinstance(v, list):
                    parts.append(f"{f}=[{','.join(rec(x) for x in v)}]")
                elif isinstance(v, ast.AST):
                    parts.append(f"{f}={rec(v)}")
                elif f not in ("lineno", "col_offset", "end_lineno", "end_col_offset", "ctx", "type_comment", "kind"):
                    parts.append(f"{f}={v!r}")
            return f"{type(n).__name__}({';'.join(parts)})"
        return repr(n)
    return rec(node)


class _Swap(ast.NodeTransformer):
    def __init__(self, a, b):
        self.a, self.b = a, b

    def visit_Name(self, n):
        if n.id == self.a:
            return ast.copy_location(ast.Name(id=self.b, ctx=n.ctx), n)
        if n.id == self.b:
            return ast.copy_location(ast.Name(id=self.a, ctx=n.ctx), n)
        return n


def check(ctx, res) -> None:
    _check_main(ctx, res)
    from .c14 import prefix_word_start_rule

    prefix_word_start_rule(ctx, res, "R02.27")
    from .common import merge_precedence_rule, module_search_order_rule

    merge_precedence_rule(ctx, res, "R02.7")
    module_search_order_rule(ctx, res, "R02.8")
    _header_keyword_rule(ctx, res)
    _package_precedence_rule(ctx, res)
    init_names_filter_rule(ctx, res, "R02.28")
    _shared_global_rule(ctx, res)
    _same_pyname_strength_rule(ctx, res)
    from .common import call_target_rule

    call_target_rule(ctx, res, "R02.15")
    from .c14 import line_table_rule

    line_table_rule(ctx, res, "R02.11")
    from .c15 import region_interval_rule

    region_interval_rule(ctx, res, "R02.12")
    from .c15 import sibling_search_rule

    sibling_search_rule(ctx, res, "R02.17")
    from .common import byte_column_rule, column_to_offset_anchor

    column_to_offset_anchor(ctx, res, "R02.18")
    byte_column_rule(ctx, res, "R02.18", ("rope.refactor.occurrences",))
    from .common import identifier_char_rule

    from .c15 import walrus_in_comprehension_rule

    walrus_in_comprehension_rule(ctx, res, "R02.20")
    header_expression_scope_rule(ctx, res, "R02.21")
    comprehension_iterable_scope_rule(ctx, res, "R02.23")
    decorators_above_the_statement_rule(ctx, res, "R02.24")
    from .c13 import no_negative_cache_rule

    no_negative_cache_rule(ctx, res, "R02.25")
    from .c15 import comprehension_sees_parent_rule

    comprehension_sees_parent_rule(ctx, res, "R02.26")
    from .common import position_pair_rule

    position_pair_rule(ctx, res, "R02.22", ("rope.refactor.occurrences", "rope.refactor.functionutils", "rope.base.evaluate", "rope.refactor.patchedast", "rope.base.codeanalyze"))
    identifier_char_rule(ctx, res, "R02.19", ("rope.refactor.occurrences", "rope.base.worder", "rope.base.evaluate"), occurrences=True)


def _first_verdict_helper(h) -> bool:
    """does the method return only (a) the result of calling an element of self.filters, on paths where that result was
    tested to be not None, or (b) a falsy constant?"""
    cfg = CFG(h.node)
    verdicts = set()
    for lp in walk_local(h.node):
        if isinstance(lp, ast.For) and isinstance(lp.target, ast.Name) and any(is_self_attr(x, "filters") for x in ast.walk(lp.iter)):
            for a in walk_local(lp):
                if isinstance(a, ast.Assign) and isinstance(a.targets[0], ast.Name) and isinstance(a.value, ast.Call) \
                        and isinstance(a.value.func, ast.Name) and a.value.func.id == lp.target.id:
                    verdicts.add(a.targets[0].id)
    if not verdicts:
        return False
    rets = [n for n in cfg.nodes if n.kind == "stmt" and isinstance(n.ast, ast.Return)]
    if not rets:
        return False
    for n in rets:
        v = n.ast.value
        if v is None or (isinstance(v, ast.Constant) and not v.value):
            continue
        if isinstance(v, ast.Name) and v.id in verdicts:
            gs = cfg.guards(n.id)
            not_none = any(isinstance(t, ast.Compare) and isinstance(t.left, ast.Name) and t.left.id == v.id and
                           ((isinstance(t.ops[0], ast.IsNot) and pol) or (isinstance(t.ops[0], ast.Is) and not pol)) for t, pol in gs)
            if not_none:
                continue
        return False
    return True


def _check_main(ctx, res) -> None:
    idx = ctx.idx
    # ---- R02.1 symmetry
    sp = idx.need_func("rope.refactor.occurrences.same_pyname")
    ps = param_names(sp.node)
    if len(ps) != 2:
        raise AnalysisError("anchor=same_pyname(a, b) is no longer binary")
    import copy

    from .common import inline_single_assignments
    body = [s for s in inline_single_assignments(sp.node) if not (isinstance(s, ast.Expr) and isinstance(s.value, ast.Constant))]
    orig = [_commutative_norm(s) for s in body]
    swapped = [_commutative_norm(_Swap(ps[0], ps[1]).visit(copy.deepcopy(s))) for s in body]
    # statement order of independent early-return tests does not matter: compare as multisets per prefix of tests,
    # but keep the final return last
    ok = sorted(orig[:-1]) == sorted(swapped[:-1]) and orig[-1] == swapped[-1]
    res.add("R02.1", "same_pyname", ok, sp.where,
            "same_pyname is invariant under swapping its parameters" if ok else
            "same_pyname treats its two arguments differently (a test is applied to one side only): whether two occurrences count as the same "
            "binding depends on which one was used to ask, so find-occurrences / rename give different answers from different occurrences")

    # ---- R02.2 textual pattern
    folder = fold.get(ctx)
    folder.init_env[TF] = {"name": "NAME", "docs": False}
    try:
        try:
            pat = folder.call_function(TF + "._get_occurrence_pattern", ["NAME"])
        except fold.Unfoldable:
            # the pattern may be built in __init__ itself: fold the value of the instance attribute
            tfc = idx.need_class(TF)
            pat = folder.eval(tfc.unit.modname, ast.parse("self.pattern", mode="eval").body, {}, cls=tfc)
    except fold.Unfoldable as e:
        raise AnalysisError(f"occurrence pattern not foldable: {e}")
    if not isinstance(pat, str):
        raise AnalysisError("occurrence pattern did not fold to a string")
    res.analysed["occurrence_pattern_prefix"] = pat[:120]
    tree = sre_parse.parse(pat)
    names = {v: k for k, v in tree.state.groupdict.items()}
    if len(tree) != 1 or tree[0][0] is not sre_c.BRANCH:
        raise AnalysisError("anchor=occurrence pattern is not a top-level alternation")
    order: List[str] = []
    alts = tree[0][1][1]
    alt_src: Dict[str, object] = {}
    for alt in alts:
        g = None
        if len(alt) == 1 and alt[0][0] is sre_c.SUBPATTERN:
            g = names.get(alt[0][1][0])
        order.append(g or "?")
        alt_src[g or "?"] = alt
    res.analysed["alternatives"] = order
    need = {"occurrence", "comment", "string", "fstring"}
    res.add("R02.2", "alternatives", need <= set(order), "rope/refactor/occurrences.py",
            f"candidate pattern has the alternatives {order}" if need <= set(order) else
            f"candidate pattern lacks the alternative(s) {sorted(need - set(order))}: identifiers inside {sorted(need - set(order))} become rename candidates")
    if need <= set(order):
        # languages of the skipping alternatives
        gsrc = _group_sources(pat)
        cm = rca.build(gsrc["comment"], erase_assertions=True)
        okc = rca.accepts(cm, "# NAME here") and not rca.accepts(cm, "# a\nNAME")
        res.add("R02.2", "comment-alternative", okc, "rope/refactor/occurrences.py",
                "the comment alternative consumes a comment up to the end of its line" if okc else
                "the comment alternative does not consume exactly one comment line")
        st = rca.build(f"(?:{gsrc['string']})|(?:{gsrc['fstring']})", erase_assertions=True)
        bad = [p for p in sorted(tokenize._all_string_prefixes()) if not rca.accepts(st, p + '"NAME"')]
        res.add("R02.2", "string-alternatives", not bad, "rope/refactor/occurrences.py",
                "string / f-string alternatives consume literals with every tokenizer prefix" if not bad else
                f"literals with prefix {bad} are not consumed by the string alternatives: identifiers inside them become candidates")
        # ordered choice: a prefixed literal starts at its prefix letter
        io, is_, if_ = order.index("occurrence"), order.index("string"), order.index("fstring")
        occ_alt = gsrc["occurrence"]
        excludes_quote = "(?!['\"])" in occ_alt.replace(" ", "") or "(?![\"'])" in occ_alt.replace(" ", "")
        ok_order = (is_ < io and if_ < io) or excludes_quote
        res.add("R02.2", "ordered-choice", ok_order, "rope/refactor/occurrences.py",
                "string alternatives are tried before the bare-word alternative (or the word excludes a following quote)" if ok_order else
                "the bare-word alternative is tried before the string alternatives: for a variable whose name is a string prefix (b, f, r, u, br, ...) "
                "the prefix of a literal such as b'abc' is matched as an occurrence, and rename rewrites it (b'abc' -> bb_new'abc')")
    # yields only for occurrence / fstring
    rs = idx.need_func(TF + "._re_search")
    cfg = CFG(rs.node)
    for n in cfg.nodes:
        if n.kind == "stmt" and any(isinstance(x, ast.Yield) for x in [n.ast, *walk_local(n.ast)]) or \
                (n.kind == "stmt" and any(isinstance(x, ast.Yield) for x in ast.walk(n.ast))):
            groups = set()
            for t, pol in cfg.guards(n.id):
                if pol:
                    for x in ast.walk(t):
                        if const_str(x) in ("occurrence", "fstring", "comment", "string"):
                            groups.add(const_str(x))
            ok = bool(groups) and groups <= {"occurrence", "fstring"}
            res.add("R02.2", f"_re_search|yield@{'+'.join(sorted(groups)) or 'unguarded'}", ok, f"{rs.unit.rel}:{n.lineno}",
                    f"offsets are yielded only for the {sorted(groups)} group" if ok else
                    "an offset is yielded for a match of the comment/string alternative (or unconditionally): tokens inside strings or comments become candidates")

    # ---- R02.3 filter chain
    fo = idx.need_func("rope.refactor.occurrences.Finder.find_occurrences")
    cfg = CFG(fo.node)
    for n in cfg.nodes:
        if n.kind == "stmt" and any(isinstance(x, ast.Yield) for x in ast.walk(n.ast)):
            gs = cfg.guards(n.id)
            # the verdict variable: assigned from a call of the loop variable ranging over self.filters
            verdicts = set()
            for lp in walk_local(fo.node):
                if isinstance(lp, ast.For) and isinstance(lp.target, ast.Name) and any(is_self_attr(x, "filters") for x in ast.walk(lp.iter)):
                    for a in walk_local(lp):
                        if isinstance(a, ast.Assign) and isinstance(a.targets[0], ast.Name) and isinstance(a.value, ast.Call) \
                                and isinstance(a.value.func, ast.Name) and a.value.func.id == lp.target.id:
                            verdicts.add(a.targets[0].id)
            ok = any(pol and isinstance(t, ast.Name) and t.id in verdicts for t, pol in gs) and \
                any(not pol and isinstance(t, ast.Compare) and isinstance(t.ops[0], ast.Is) and isinstance(t.left, ast.Name) and t.left.id in verdicts
                    for t, pol in gs)
            if not ok:
                # the filter loop may live in a helper: the yield is then guarded by a truthy call of a method that returns
                # nothing but a filter's non-None verdict (or a falsy constant)
                for t, pol in gs:
                    if pol and isinstance(t, ast.Call) and is_self_attr(t.func) and fo.cls is not None:
                        h = idx.find_method(fo.cls.qualname, t.func.attr)
                        if h is not None and _first_verdict_helper(h):
                            ok = True
            res.add("R02.3", "find_occurrences|yield", ok, f"{fo.unit.rel}:{n.lineno}",
                    "an occurrence is yielded only when a filter returned a truthy, non-None result" if ok else
                    "an occurrence can be yielded without a filter having accepted it")
    occ_mod = "rope.refactor.occurrences"
    accepting = []
    nfilters = 0
    for q, c in sorted(idx.classes.items()):
        if c.unit.modname != occ_mod or not c.name.endswith("Filter") or "__call__" not in c.methods:
            continue
        nfilters += 1
        call = c.methods["__call__"]
        rets_true = [r for r in walk_local(call.node) if isinstance(r, ast.Return) and isinstance(r.value, ast.Constant) and r.value.value is True]
        if rets_true:
            accepting.append(c.name)
    allowed = {"PyNameFilter", "InHierarchyFilter", "UnsureFilter"}
    res.add("R02.3", "accepting-filters", set(accepting) <= allowed, "rope/refactor/occurrences.py",
            f"only {sorted(accepting)} can accept an occurrence" if set(accepting) <= allowed else
            f"filter(s) {sorted(set(accepting) - allowed)} can accept an occurrence without establishing binding identity")
    res.floor("R02.3", "filter classes", nfilters, 6)
    pf = idx.need_func(f"{occ_mod}.PyNameFilter.__call__")
    cfg = CFG(pf.node)
    okp = True
    for n in cfg.nodes:
        if n.kind == "stmt" and isinstance(n.ast, ast.Return) and isinstance(n.ast.value, ast.Constant) and n.ast.value.value is True:
            if not any(pol and isinstance(t, ast.Call) and call_name(t) == "same_pyname" and any(is_self_attr(a, "pyname") for a in t.args)
                       for t, pol in cfg.guards(n.id)):
                okp = False
    res.add("R02.3", "PyNameFilter", okp, pf.where,
            "PyNameFilter accepts only under same_pyname(self.pyname, ...)" if okp else
            "PyNameFilter can accept an occurrence without same_pyname having established that it is the queried binding")
    cf = idx.need_func(f"{occ_mod}.create_finder")
    cfg = CFG(cf.node)
    inst = [n for n in cfg.nodes if n.ast is not None and n.kind == "stmt" and any(
        call_name(c) == "append" and c.args and isinstance(c.args[0], ast.Call) and call_name(c.args[0]) == "PyNameFilter" for c in calls_in(n.ast))]
    oki = bool(inst)
    if oki:
        # the loop over the queried pynames is on every path to the return, and the set starts with the queried pyname
        loops = cfg.loop_guards(inst[0].id)
        seeds = [x for x in walk_local(cf.node) if isinstance(x, ast.Assign) and isinstance(x.value, ast.Set)
                 and any(isinstance(e, ast.Name) and e.id == "pyname" for e in x.value.elts)]
        rets = [n for n in cfg.nodes if n.kind == "stmt" and isinstance(n.ast, ast.Return)]
        heads = [l for l in cfg.nodes if l.kind == "loop" and l.ast in loops]
        oki = bool(loops) and bool(seeds) and all(cfg.must_pass_through(cfg.entry.id, r.id, lambda n: n in heads) for r in rets)
    res.add("R02.3", "create_finder|identity-filter", oki, cf.where,
            "create_finder installs a PyNameFilter for the queried binding on every path" if oki else
            "create_finder can return a finder without a PyNameFilter for the queried binding: no occurrence (or an unrelated one) is accepted")

    # ---- R02.4 (=R01.1): whether two occurrences are the same binding rests on the lookup chain skipping class scopes
    from .c01 import class_scope_rule

    class_scope_rule(ctx, res, "R02.4")

    # ---- R02.5 (=R15.7): target-name collectors do not bind the object of an attribute/subscript target
    from .c15 import load_positions_rule

    load_positions_rule(ctx, res, "R02.5")

    # ---- R02.6 filter order
    filter_order_rule(ctx, res, "R02.6", "rope.refactor.occurrences.create_finder")


def filter_order_rule(ctx, res, rule: str, func_qual: str) -> None:
    """Finder semantics: the first filter returning a non-None verdict decides.  A filter that can only reject (returns
    False or None) is dead behind a filter that can accept (returns True); so in every filter list rejecting-only
    filters must come before accepting ones.  Shared by C02 (create_finder) and C20 (find_definition)."""
    idx = ctx.idx
    f = idx.need_func(func_qual)
    occ = "rope.refactor.occurrences"

    def verdicts_of_callable(node) -> Set[str]:
        out = set()
        for r in walk_local(node):
            if isinstance(r, ast.Return) and isinstance(r.value, ast.Constant) and r.value.value in (True, False):
                out.add("accept" if r.value.value else "reject")
        return out

    if not any(call_name(c) == "Finder" for c in calls_in(f.node)):
        # the finder may be built in a private function of the module that this one calls (`_first_occurrence_from_line(...)`): look there
        called = {c.func.id for c in calls_in(f.node) if isinstance(c.func, ast.Name)}
        for g in idx.functions.values():
            if g.unit is f.unit and g.cls is None and g.parent is None and g.name in called and g.name.startswith("_") \
                    and any(call_name(c) == "Finder" for c in calls_in(g.node)):
                f = g
                break
    local_defs = {n.name: n for n in ast.walk(f.node) if isinstance(n, ast.FunctionDef) and n is not f.node}
    local_vars = {}
    for n in walk_local(f.node):
        if isinstance(n, ast.Assign) and isinstance(n.targets[0], ast.Name) and isinstance(n.value, ast.Call):
            local_vars[n.targets[0].id] = n.value

    def classify(e: ast.AST) -> Optional[Set[str]]:
        if isinstance(e, ast.Name) and e.id in local_defs:
            return verdicts_of_callable(local_defs[e.id])
        if isinstance(e, ast.Name) and e.id in local_vars:
            e = local_vars[e.id]
        if isinstance(e, ast.Call):
            q = idx.resolve(f.unit.modname, e.func)
            if q in idx.classes and "__call__" in idx.classes[q].methods:
                return verdicts_of_callable(idx.classes[q].methods["__call__"].node)
        if isinstance(e, ast.Lambda):
            return {"accept"} if isinstance(e.body, ast.Constant) and e.body.value is True else None
        return None

    sequences: List[List[ast.AST]] = []
    for c in calls_in(f.node):
        if call_name(c) == "Finder":
            for a in list(c.args) + [k.value for k in c.keywords]:
                if isinstance(a, ast.List):
                    sequences.append(list(a.elts))
    # the local list that collects the filters: the one handed to Finder(...)
    list_vars = {a.id for c in calls_in(f.node) if call_name(c) == "Finder" for a in list(c.args) + [k.value for k in c.keywords]
                 if isinstance(a, ast.Name)}
    appended = [c.args[0] for c in calls_in(f.node) if isinstance(c.func, ast.Attribute) and c.func.attr == "append"
                and isinstance(c.func.value, ast.Name) and c.func.value.id in list_vars and c.args]
    if appended:
        sequences.append(appended)  # calls_in is sorted by source position = append order on the straight-line path
    if not sequences:
        raise AnalysisError(f"anchor={func_qual}: no filter list found")
    for i, seq_ in enumerate(sequences):
        kinds = [classify(e) for e in seq_]
        seen_accept = None
        bad = None
        for e, k in zip(seq_, kinds):
            if k is None:
                continue
            if "accept" in k and seen_accept is None:
                seen_accept = e
            elif seen_accept is not None and k == {"reject"}:
                bad = (seen_accept, e)
        res.add(rule, f"{func_qual.split('.')[-1]}|filters-{i}", bad is None, f.where,
                "rejecting-only filters precede every accepting filter" if bad is None else
                f"the rejecting-only filter {ast.unparse(bad[1])} comes after the accepting filter {ast.unparse(bad[0])}: the first non-None verdict "
                "decides, so occurrences the accepting filter takes are never shown to the rejecting one")


def _group_sources(pat: str) -> Dict[str, str]:
    """source text of each top-level named alternative (split on top-level '|')"""
    out, depth, cur, i = [], 0, "", 0
    in_class = False
    while i < len(pat):
        ch = pat[i]
        if ch == "\\":
            cur += pat[i:i + 2]
            i += 2
            continue
        if in_class:
            if ch == "]":
                in_class = False
        elif ch == "[":
            in_class = True
        elif ch == "(":
            depth += 1
        elif ch == ")":
            depth -= 1
        elif ch == "|" and depth == 0:
            out.append(cur)
            cur = ""
            i += 1
            continue
        cur += ch
        i += 1
    out.append(cur)
    res = {}
    for alt in out:
        if alt.startswith("(?P<"):
            name = alt[4:alt.index(">")]
            res[name] = alt[alt.index(">") + 1:-1]
    return res


def _header_keyword_rule(ctx, res, rule: str = "R02.9") -> None:
    """R02.9: a name directly after a definition keyword is a definition header.  The grammar has three constructors that
    bind an identifier in their header (FunctionDef, AsyncFunctionDef, ClassDef); the word finder's keyword table must
    contain the keyword text of each of them that exists in the running interpreter's grammar."""
    from ..grammar import G

    idx = ctx.idx
    f = idx.need_func("rope.base.worder._RealFinder.is_a_class_or_function_name_in_header")
    KEYWORD = {"FunctionDef": "def", "AsyncFunctionDef": "async def", "ClassDef": "class"}
    table = set()
    for x in ast.walk(f.node):
        if isinstance(x, ast.Compare) and len(x.ops) == 1 and isinstance(x.ops[0], ast.In):
            lit = idx.literal_node(f.unit.modname, x.comparators[0], f.cls)  # in place, or a class / module constant
            if isinstance(lit, (ast.List, ast.Tuple, ast.Set)):
                table |= {e.value for e in lit.elts if isinstance(e, ast.Constant) and isinstance(e.value, str)}
        if isinstance(x, ast.Compare) and len(x.ops) == 1 and isinstance(x.ops[0], ast.Eq) and isinstance(x.comparators[0], ast.Constant) \
                and isinstance(x.comparators[0].value, str):
            table.add(x.comparators[0].value)
    if not table:
        raise AnalysisError("anchor=is_a_class_or_function_name_in_header: keyword table not found")
    for ctor, kw in sorted(KEYWORD.items()):
        if ctor not in G.ctors:
            continue
        ok = kw in table
        res.add(rule, f"header-keyword:{ctor}", ok, f.where,
                f"'{kw}' is a definition-header keyword of the word finder" if ok else
                f"the word finder does not treat the name after '{kw}' as a definition header (table {sorted(table)}): starting rename or "
                f"find-occurrences on the name in a `{kw} name(...)` header of a method resolves nothing, so the definition and its references "
                "are not the same occurrence set", function=f.qualname)


def _package_precedence_rule(ctx, res, rule: str = "R02.10") -> None:
    """R02.10: the attributes of a package are the names bound by its __init__.py and, for names it does not bind, the
    submodules.  rope keeps the submodules as 'structural' and the __init__ names as 'concluded' attributes; for every
    other defined object structural wins, so the package class must override the merge: in get_attributes the concluded
    table is merged LAST, in get_attribute it is consulted FIRST."""
    idx = ctx.idx
    pk = "rope.base.pyobjectsdef.PyPackage"
    idx.need_class(pk)
    base = idx.need_func("rope.base.pyobjects.PyDefinedObject.get_attributes")

    def table_of(c: ast.Call, depth: int = 0) -> Optional[str]:
        """'structural' / 'concluded' for a call that yields (a filtered copy of) one of the two tables"""
        n = call_name(c)
        if n == "_get_structural_attributes":
            return "structural"
        if n == "_get_concluded_attributes":
            return "concluded"
        if is_self_attr(c.func) and depth < 2:
            m = idx.find_method(pk, n)
            if m is not None and m.unit.modname.startswith("rope.base.pyobjects"):
                # the helper's result is what it iterates over (a filter), not what it merely looks names up in
                for x in walk_local(m.node):
                    it = x.iter if isinstance(x, (ast.For, ast.comprehension)) else None
                    if it is not None:
                        for cc in [y for y in ast.walk(it) if isinstance(y, ast.Call)]:
                            t = table_of(cc, depth + 1)
                            if t:
                                return t
        return None

    def order_in(fn) -> List[str]:
        """sequence of 'structural' / 'concluded' in the order the tables are consulted or merged"""
        out = []
        for c in sorted((c for c in ast.walk(fn.node) if isinstance(c, ast.Call)), key=lambda c: (c.lineno, c.col_offset)):
            k = table_of(c)
            if k and (not out or out[-1] != k):
                out.append(k)
        return out

    ga = idx.find_method(pk, "get_attributes")
    seq = order_in(ga) if ga is not None else []
    ok = ga is not None and ga.qualname != base.qualname and seq[:2] == ["structural", "concluded"]
    res.add(rule, "PyPackage.get_attributes|init-names-win", ok, (ga or base).where,
            "the __init__ names are merged after (over) the submodules" if ok else
            f"PyPackage merges its attribute tables in the order {seq or 'inherited: concluded, structural'} (the later one wins): a submodule hides "
            "the name that __init__.py binds (`from .render import render`), so `from pkg import render` resolves to the module instead of the "
            "function and its uses are missing from the function's occurrences", function=(ga or base).qualname)
    g1 = idx.find_method(pk, "get_attribute")
    seq1 = order_in(g1) if g1 is not None else []
    ok1 = g1 is not None and g1.unit.modname == "rope.base.pyobjectsdef" and seq1[:1] == ["concluded"]
    res.add(rule, "PyPackage.get_attribute|init-names-first", ok1, (g1 or base).where,
            "single-name lookup consults the __init__ names first" if ok1 else
            f"PyPackage.get_attribute consults {seq1 or 'the inherited order: structural first'}: pkg.name resolves to the submodule although __init__.py rebinds it",
            function=(g1 or base).qualname)


def init_names_filter_rule(ctx, res, rule: str) -> None:
    """(shared C02 / C01) The names `__init__.py` binds win over the submodules of the package -- except the one case that would never end:
    `from . import sub` inside `__init__.py` names the submodule itself.  Where the package filters its __init__ names, a name is LEFT OUT
    only when it is a submodule name AND the self-import (`name in <submodules> and self.<is that import>(...)`): the exclusion condition is
    a conjunction that contains both.  Dropping every name that equals a submodule name (`A or B`: what `not A and not B` keeps out) gives
    `pkg.render` the module where `__init__.py` says `from .render import render` -- the function's uses are missing from its occurrences
    and a rename moves the file."""
    from ..cfg import CFG
    idx = ctx.idx
    pk = idx.need_class("rope.base.pyobjectsdef.PyPackage")

    def facts(t, pol, depth=0):
        if depth > 6:
            return
        if isinstance(t, ast.UnaryOp) and isinstance(t.op, ast.Not):
            yield from facts(t.operand, not pol, depth + 1)
        elif isinstance(t, ast.BoolOp) and ((isinstance(t.op, ast.And) and pol) or (isinstance(t.op, ast.Or) and not pol)):
            for v in t.values:
                yield from facts(v, pol, depth + 1)
        else:
            yield t, pol

    n = 0
    for m in sorted(pk.methods.values(), key=lambda m: m.name):
        iters = [x for x in ast.walk(m.node) if isinstance(x, (ast.For, ast.comprehension))
                 and any(isinstance(c, ast.Call) and call_name(c) == "_get_concluded_attributes" for c in ast.walk(x.iter))]
        for it in iters:
            excl = None  # the facts that hold when a name is left out
            if isinstance(it, ast.For):
                cfg = CFG(m.node)
                conts = [nd for nd in cfg.nodes if nd.kind == "stmt" and isinstance(nd.ast, ast.Continue) and any(y is nd.ast for y in ast.walk(it))]
                if conts:
                    excl = [f_ for t, pol in cfg.guards(conts[0].id) for f_ in facts(t, pol)]
            elif it.ifs:
                keep = it.ifs[0] if len(it.ifs) == 1 else ast.BoolOp(op=ast.And(), values=list(it.ifs))
                excl = list(facts(keep, False))
            if excl is None:
                continue
            n += 1
            is_sub = any(pol and isinstance(t, ast.Compare) and len(t.ops) == 1 and isinstance(t.ops[0], ast.In) for t, pol in excl)
            is_self_import = any(pol and isinstance(t, ast.Call) and is_self_attr(t.func) for t, pol in excl)
            ok = is_sub and is_self_import
            shown = " / ".join(ast.unparse(t)[:50] + ("" if pol else " is false") for t, pol in excl)
            res.add(rule, f"PyPackage.{m.name}|an-init-name-is-left-out-only-as-the-self-import#{n}", ok, f"{m.unit.rel}:{it.iter.lineno}",
                    "a name of __init__.py is left out only when it is a submodule name AND the import of that submodule from the package itself" if ok else
                    f"PyPackage.{m.name} leaves a name of __init__.py out under `{shown}` -- not under \"submodule name AND self-import\" together: every name that equals a "
                    "submodule name is dropped, `pkg.render` resolves to the module although __init__.py says `from .render import render`; the function's uses through the "
                    "package are missing from its occurrences and a rename started there moves the file", function=m.qualname)
    res.floor(rule, "filters over the names of __init__.py", n, 1)


def _shared_global_rule(ctx, res, rule: str = "R02.13") -> None:
    """R02.13: `global n` in two functions names one variable even when the module never assigns n.  In the scope
    visitor's Global handler the binding made up for such a name is obtained from a registry owned by the module
    (`module.<dict>.setdefault(name, ...)` or a lookup in it), never constructed afresh per declaration."""
    idx = ctx.idx
    h = idx.need_func("rope.base.pyobjectsdef._ScopeVisitor._Global")
    made = [c for c in calls_in(h.node) if call_name(c) in ("AssignedName", "UnboundName", "DefinedName")]
    if not made:
        res.ok(rule, "_ScopeVisitor._Global|shared-binding", h.where, "the handler constructs no binding of its own")
        return
    par = {}
    for n in ast.walk(h.node):
        for ch in ast.iter_child_nodes(n):
            par[id(ch)] = n
    ok = True
    for c in made:
        p = par.get(id(c))
        via_registry = isinstance(p, ast.Call) and isinstance(p.func, ast.Attribute) and p.func.attr in ("setdefault", "get") and c in p.args
        if not via_registry:
            # or stored into a module-owned mapping right away
            st = p
            while st is not None and not isinstance(st, ast.stmt):
                st = par.get(id(st))
            via_registry = isinstance(st, ast.Assign) and any(isinstance(t, ast.Subscript) for t in st.targets)
        ok = ok and via_registry
    res.add(rule, "_ScopeVisitor._Global|shared-binding", ok, h.where,
            "the binding for a name bound only through `global` comes from a module-owned registry" if ok else
            "_ScopeVisitor._Global constructs a fresh binding for every `global n` whose n the module does not assign: two functions declaring the "
            "same global get two unrelated bindings, so find-occurrences from one misses the other and rename changes only one of them",
            function=h.qualname)


def _same_pyname_strength_rule(ctx, res, rule: str = "R02.14") -> None:
    """R02.14: two names reached through imports are the same binding only if they agree on BOTH the definition
    location and the object (an imported module and a variable on its first line share a location; a function and its
    same-named parameter share a line).  The deciding return of same_pyname is a conjunction containing both equalities."""
    idx = ctx.idx
    f = idx.need_func("rope.refactor.occurrences.same_pyname")
    ps = param_names(f.node)[:2]
    rets = [r for r in walk_local(f.node) if isinstance(r, ast.Return) and r.value is not None and not isinstance(r.value, ast.Constant)]
    if not rets:
        raise AnalysisError("anchor=same_pyname: deciding return not found")
    for k, r in enumerate(rets, 1):
        conj = list(r.value.values) if isinstance(r.value, ast.BoolOp) and isinstance(r.value.op, ast.And) else [r.value]
        have = set()
        for t in conj:
            if isinstance(t, ast.Compare) and len(t.ops) == 1 and isinstance(t.ops[0], ast.Eq):
                a, b = t.left, t.comparators[0]
                if isinstance(a, ast.Call) and isinstance(b, ast.Call) and call_name(a) == call_name(b) and \
                        isinstance(a.func, ast.Attribute) and isinstance(b.func, ast.Attribute) and \
                        {getattr(a.func.value, "id", None), getattr(b.func.value, "id", None)} == set(ps):
                    have.add(call_name(a))
        need = {"get_definition_location", "get_object"}
        missing = need - have
        res.add(rule, f"same_pyname|decision#{k}", not missing, f"{f.unit.rel}:{r.lineno}",
                "the decision compares definition location and object of both names" if not missing else
                f"same_pyname decides on {sorted(have) or 'nothing'} only (missing {sorted(missing)}): two different bindings that share a definition "
                "location (an imported module and a variable on its first line; a function and its same-named parameter) are merged, so "
                "find-occurrences reports foreign tokens and the answer depends on the query point", function=f.qualname)


def _finder_with_steps_in_place(idx, f):
    """get_primary_and_pyname_at with its private steps read in place (the choice of the evaluation scope may be a step of its own:
    `eval_str2(self._get_evaluation_scope(holding_scope, offset), name)`); the predicates (`_is_...`) stay calls.  A move to the parent
    scope is `<name> = <scope>.parent` -- `holding_scope = holding_scope.parent`, or the result local of a step that returns `scope.parent`."""
    from .common import inline_private_calls
    keep = tuple(n for n in (f.cls.methods if f.cls is not None else {}) if n.startswith("_is_"))
    return inline_private_calls(idx, f, keep=keep)


def comprehension_iterable_scope_rule(ctx, res, rule: str) -> None:
    """R02.23 (= R01.18): the interpreter evaluates the FIRST iterable of a comprehension (`generators[0].iter`) before it enters
    the comprehension's scope -- `[x for x in x]` loops over the outer `x`; every later iterable and every condition is
    evaluated inside.  rope's comprehension scope covers the whole display.  (a) On the way to the final evaluation the name
    finder moves to the parent scope under a test that reads `<node>.generators[0].iter` -- index 0, not every generator.
    (b) The move is REPEATED while the scope reached has the offset in such an expression: the inner display of
    `[x for x in [x for x in x]]` stands in the first iterable of the outer one, whose loop variable is also `x`."""
    idx = ctx.idx
    f = idx.need_func("rope.base.evaluate.ScopeNameFinder.get_primary_and_pyname_at")
    cfg = CFG(_finder_with_steps_in_place(idx, f))
    moves = []
    for nd in cfg.nodes:
        st = nd.ast
        if nd.kind == "stmt" and isinstance(st, ast.Assign) and len(st.targets) == 1 and isinstance(st.targets[0], ast.Name) \
                and isinstance(st.value, ast.Attribute) and st.value.attr == "parent" and isinstance(st.value.value, ast.Name) \
                and (st.value.value.id == st.targets[0].id or st.targets[0].id.startswith("_inl")):
            moves.append(nd)
    if not moves:
        res.add(rule, "get_primary_and_pyname_at|first-iterable-of-a-comprehension-evaluated-in-the-parent-scope", False, f.where,
                "the name finder never moves to the parent scope before the final evaluation: a name that stands in the first iterable of a comprehension "
                "(`x = [1, 2]; [x for x in x]`) is looked up among the comprehension's own names", function=f.qualname)
        return

    def texts_of(t):
        texts, todo, done = [t], [t], set()
        while todo:
            cur = todo.pop()
            for c in ast.walk(cur):
                if not isinstance(c, ast.Call):
                    continue
                m = None
                if is_self_attr(c.func) and f.cls is not None:
                    m = idx.find_method(f.cls.qualname, c.func.attr)
                elif isinstance(c.func, ast.Name):
                    m = idx.functions.get(f"{f.unit.modname}.{c.func.id}")
                if m is not None and m.qualname not in done and len(done) < 12:
                    done.add(m.qualname)
                    texts.append(m.node)
                    todo.append(m.node)
        return texts

    def first_iter(x) -> bool:
        return isinstance(x, ast.Attribute) and x.attr == "iter" and isinstance(x.value, ast.Subscript) and isinstance(x.value.value, ast.Attribute) \
            and x.value.value.attr == "generators" and isinstance(x.value.slice, ast.Constant) and x.value.slice.value == 0

    best = None  # (move node, reads first iterable, reads every generator, test nodes)
    for nd in moves:
        gs = [t for t, pol in cfg.guards(nd.id) if pol]
        texts = [tt for t in gs for tt in texts_of(t)]
        has_first = any(first_iter(x) for tt in texts for x in ast.walk(tt))
        # `for g in node.generators` / `g.iter for g in node.generators`: every iterable, also those evaluated inside
        every = [x for tt in texts for x in ast.walk(tt) if isinstance(x, (ast.For, ast.comprehension)) and isinstance(x.iter, ast.Attribute) and x.iter.attr == "generators"]
        mentions = any(isinstance(x, ast.Attribute) and x.attr == "generators" for tt in texts for x in ast.walk(tt))
        cand = (nd, has_first, every, gs, mentions)
        if best is None or (cand[4], cand[1]) > (best[4], best[1]):
            best = cand
    nd, has_first, every, gs, mentions = best
    ok = has_first and not every
    res.add(rule, "get_primary_and_pyname_at|first-iterable-of-a-comprehension-evaluated-in-the-parent-scope", ok, f"{f.unit.rel}:{nd.lineno}",
            "a name in the first iterable of a comprehension is evaluated in the scope that contains the comprehension" if ok else
            ("the test in front of the move to the parent scope reads the iterable of EVERY generator of a comprehension: only the first is evaluated outside -- in "
             "`[y for x in xs for y in x]` the second iterable `x` is the loop variable, and it would be looked up outside" if every else
             "a name that stands in the first iterable of a comprehension (`generators[0].iter`) is evaluated among the comprehension's own names: in `x = [1, 2]; "
             "print([x for x in x], x)` the iterable resolves to the loop variable, so Rename of the module's `x` leaves `in x` behind (NameError) and Rename of the loop "
             "variable takes the iterable along"), function=f.qualname)
    # (b) the move sits on a cycle with its own test
    test_nodes = [t for t in cfg.nodes if t.kind == "test" and any(t.ast is g or any(g is y for y in ast.walk(t.ast)) for g in gs)]
    repeated = any(t.id in cfg.reachable(nd.id) for t in test_nodes) if has_first else None
    if repeated is not None:
        res.add(rule, "get_primary_and_pyname_at|move-to-the-parent-scope-is-repeated", repeated, f"{f.unit.rel}:{nd.lineno}",
                "the scope reached is examined again (a display inside the first iterable of another display)" if repeated else
                "the move to the parent scope is made once: the inner display of `[x for x in [x for x in x]]` stands in the FIRST iterable of the outer one, the scope "
                "reached is the outer comprehension, and its loop variable `x` is taken for the module's `x` -- likewise `def f(a=[v for v in v])`, where the scope "
                "reached is f and the default belongs to the scope around f", function=f.qualname)


def decorators_above_the_statement_rule(ctx, res, rule: str) -> None:
    """R02.24 (= R01.20 = R20.17): a scope's start line (`get_start()`, the `lineno` of its node) is the line of the `def` /
    `class` keyword; the DECORATORS stand above it and are among the expressions evaluated outside.  The test "is this offset
    in a header expression" therefore never compares the position with the start line: a lower bound `get_start() <= lineno`
    in front of the span tests cuts the decorators off (an upper bound by `get_body_start()` is fine).  Checked in the test's
    function and the private helpers it calls: no comparison there has `<scope>.get_start()` or `<the statement node>.lineno`
    as an operand."""
    idx = ctx.idx
    f = idx.need_func("rope.base.evaluate.ScopeNameFinder.get_primary_and_pyname_at")
    cfg = CFG(_finder_with_steps_in_place(idx, f))
    tests = []
    for nd in cfg.nodes:
        st = nd.ast
        if nd.kind == "stmt" and isinstance(st, ast.Assign) and len(st.targets) == 1 and isinstance(st.targets[0], ast.Name) \
                and isinstance(st.value, ast.Attribute) and st.value.attr == "parent" and isinstance(st.value.value, ast.Name) \
                and (st.value.value.id == st.targets[0].id or st.targets[0].id.startswith("_inl")):
            tests += [t for t, pol in cfg.guards(nd.id) if pol]
    fam = []
    for t in tests:
        for c in ast.walk(t):
            if isinstance(c, ast.Call) and is_self_attr(c.func) and f.cls is not None:
                m = idx.find_method(f.cls.qualname, c.func.attr)
                if m is not None and m not in fam:
                    fam.append(m)
    from .common import with_private_helpers
    fam = list({g.qualname: g for m in fam for g in with_private_helpers(idx, m)}.values())
    if not fam:
        # no move to the parent scope at all: that is the header-expression rule's finding, there is no test to examine here
        res.analysed[f"{rule}:header-expression test"] = "not found (no move to the parent scope)"
        return
    n = 0
    for g in fam:
        nodes = {t.id for x in walk_local(g.node) if isinstance(x, ast.Assign) and isinstance(x.value, ast.Call) and call_name(x.value) == "get_ast"
                 for t in x.targets if isinstance(t, ast.Name)}
        for c in walk_local(g.node):
            if not isinstance(c, ast.Compare):
                continue
            n += 1
            ops = [c.left] + list(c.comparators)
            bad = [o for o in ops if (isinstance(o, ast.Call) and call_name(o) == "get_start")
                   or (isinstance(o, ast.Attribute) and o.attr == "lineno" and isinstance(o.value, ast.Name) and o.value.id in nodes)]
            if bad:
                res.fail(rule, f"{g.name}|no-bound-by-the-start-line#{n}", f"{g.unit.rel}:{c.lineno}",
                         f"`{ast.unparse(c)[:80]}` bounds the header of a def / class by its start line `{ast.unparse(bad[0])}`: that is the line of the keyword, the "
                         "decorators stand ABOVE it -- a name in `@retry(times)` over `def fetch(url, times=1)` is then looked up in fetch's own scope (the "
                         "parameter), occurrences and go-to-definition follow the wrong binding", function=g.qualname)
    cut = any(i.rule == rule and i.status == "fail" and "no-bound-by-the-start-line" in i.key for i in res.instances)
    res.add(rule, "header-expression-test|decorators-are-not-cut-off", not cut, fam[0].where,
            f"{n} comparison(s) in {[g.name for g in fam]}: " + ("one is bounded by the statement's start line, above which the decorators stand" if cut else
                                                                  "none is bounded by the statement's start line"), functions=[g.qualname for g in fam])


def header_expression_scope_rule(ctx, res, rule: str) -> None:
    """R02.21 (= R01.16): the interpreter evaluates the decorators, parameter defaults (`defaults`, `kw_defaults`), annotations,
    return annotation, and the bases / keywords of a class in the scope that CONTAINS the def or class statement; only the
    body belongs to the new scope.  rope finds "the scope holding an offset" by the extent of the whole statement.  The name
    finder therefore moves to the parent scope before it evaluates a name that stands in one of those expressions: an
    assignment `<scope> = <scope>.parent` on the way to the final evaluation, under a test that -- itself or in a method of
    the class -- reads each of those fields of the statement's node."""
    idx = ctx.idx
    f = idx.need_func("rope.base.evaluate.ScopeNameFinder.get_primary_and_pyname_at")
    cfg = CFG(_finder_with_steps_in_place(idx, f))
    need = ["decorator_list", "defaults", "kw_defaults", "annotation", "returns", "bases", "keywords"]
    best = None
    for nd in cfg.nodes:
        st = nd.ast
        if nd.kind == "stmt" and isinstance(st, ast.Assign) and len(st.targets) == 1 and isinstance(st.targets[0], ast.Name) \
                and isinstance(st.value, ast.Attribute) and st.value.attr == "parent" and isinstance(st.value.value, ast.Name) \
                and (st.value.value.id == st.targets[0].id or st.targets[0].id.startswith("_inl")):
            seen = set()
            for t, pol in cfg.guards(nd.id):
                texts = [t]
                todo, done = [t], set()
                while todo:  # the methods of the class (and functions of the module) the test calls, transitively
                    cur = todo.pop()
                    for c in ast.walk(cur):
                        if not isinstance(c, ast.Call):
                            continue
                        m = None
                        if is_self_attr(c.func) and f.cls is not None:
                            m = idx.find_method(f.cls.qualname, c.func.attr)
                        elif isinstance(c.func, ast.Name):
                            m = idx.functions.get(f"{f.unit.modname}.{c.func.id}")
                        if m is not None and m.qualname not in done and len(done) < 12:
                            done.add(m.qualname)
                            texts.append(m.node)
                            todo.append(m.node)
                seen |= {x.attr for tt in texts for x in ast.walk(tt) if isinstance(x, ast.Attribute)}
            got = [a for a in need if a in seen]
            if best is None or len(got) > len(best[1]):
                best = (nd, got)
    missing = need if best is None else [a for a in need if a not in best[1]]
    ok = not missing
    res.add(rule, "get_primary_and_pyname_at|header-expressions-evaluated-in-the-parent-scope", ok, f"{f.unit.rel}:{(best[0] if best else cfg.entry).lineno if best else f.node.lineno}",
            "a name in a decorator, default, annotation or base is evaluated in the scope that contains the statement" if ok else
            f"a name that stands in {missing} of a def / class statement is evaluated in the scope of that function or class itself: in `v = 1; def f(v=v): return v` "
            "the default resolves to the parameter, so Rename of the module's `v` leaves `v=v` (NameError when the module is imported) and the occurrences of "
            "the parameter include the default", function=f.qualname)
