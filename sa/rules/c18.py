"""C18 -- an interrupted save never leaves an unopenable project (clauses R18.1-R18.8)."""
from __future__ import annotations

import ast
import builtins
import importlib
from typing import List, Optional, Set

from .. import callgraph
from . import common
from ..cfg import CFG, handler_names
from ..core import AnalysisError, call_name, calls_in, dotted, is_self_attr, norm, walk_local

EXPLANATION = (
    "The crash-point quantifier ranges over byte prefixes of rope's data files; what must hold for every prefix is a "
    "property of the reader.  R18.1: every pickle/json/marshal deserialisation reachable (call graph) from the "
    "project-open entry points lies in a try whose handlers subsume both EOFError and pickle.UnpicklingError (the "
    "two exceptions CPython's unpickler raises on a strict prefix), decided through the interpreter's own exception "
    "hierarchy -- or every writer of that file is atomic (temp path + os.replace).  R18.2: every consumer of "
    "read_data tolerates None before using the value.  R18.3: no other file written by the data-file writer is opened "
    "for reading anywhere.  R18.4: the reader returns its list of loaded objects only under a non-emptiness test, so an "
    "empty/truncated file yields None (what the consumers test for), never [].  R18.5: each handle opened by a data writer receives exactly one serialisation record per save (no dump in a loop, no second dump), "
    "so a strict prefix of the file is never a complete shorter value.  R18.6: data files are opened for writing with a truncating mode only.  R18.7: rebuilding changes from the saved history calls no lookup that raises for a missing path.  Which version survives a crash is not decided."
    ' R18.4 also: an element of the list of loaded records is taken only where the list is known to be non-empty.'
)
EXPLANATION += " R18.8: the reader of the data files performs no change (no resource mutator, no do): those run through the history that is being loaded."
ASSUMPTIONS = [
    "a strict prefix of a valid pickle stream makes pickle.load raise EOFError or pickle.UnpicklingError (CPython behaviour)",
    "oi/doa.py and oi/runmod.py deserialise from a pipe/socket of the dynamic-analysis child, not from a data file",
]

DESER = {"pickle.load", "pickle.loads", "json.load", "json.loads", "marshal.load", "marshal.loads",
         "pickle.Unpickler"}
SER = {"pickle.dump", "json.dump", "marshal.dump"}
# modules excluded with reason (per symbol, not a blanket suppression)
IPC_MODULES = {"rope.base.oi.doa": "child-process IPC over socket/pipe", "rope.base.oi.runmod": "runs inside the analysed child process"}
OPEN_ENTRIES = ["rope.base.project.Project.__init__", "rope.base.history.History.__init__",
                "rope.base.oi.memorydb.MemoryDB.__init__"]


def _exc_class(modname: str, name: str, idx):
    """Resolve an exception name written in a handler to the interpreter's class."""
    if hasattr(builtins, name):
        return getattr(builtins, name)
    r = idx.resolve_dotted(modname, name)
    if r and "." in r:
        m, _, c = r.rpartition(".")
        try:
            return getattr(importlib.import_module(m), c) if not m.startswith("rope") else None
        except Exception:
            return None
    return None


def _covers(handlers: List[ast.ExceptHandler], need: List[type], modname, idx) -> List[type]:
    """Exception classes of `need` NOT covered by the handlers."""
    missing = []
    for exc in need:
        ok = False
        for h in handlers:
            names = handler_names(h)
            if not names:
                ok = True
            for n in names:
                k = _exc_class(modname, n, idx)
                if k is not None and isinstance(k, type) and issubclass(exc, k):
                    ok = True
        if not ok:
            missing.append(exc)
    return missing


def _open_mode(c: ast.Call, fn: Optional[ast.AST] = None) -> Optional[str]:
    """mode string of an open() call; alternatives (conditional expressions, locals assigned in fn) are joined with '|';
    '?' stands for a mode that could not be resolved"""
    if call_name(c) != "open" or not c.args:
        return None
    e: Optional[ast.AST] = None
    if len(c.args) > 1:
        e = c.args[1]
    for k in c.keywords:
        if k.arg == "mode":
            e = k.value
    if e is None:
        return "r"

    def modes(x: ast.AST, depth: int = 0) -> Set[str]:
        if isinstance(x, ast.Constant) and isinstance(x.value, str):
            return {x.value}
        if isinstance(x, ast.IfExp):
            return modes(x.body, depth) | modes(x.orelse, depth)
        if isinstance(x, ast.Name) and fn is not None and depth < 3:
            out: Set[str] = set()
            for st in walk_local(fn):
                if isinstance(st, ast.Assign) and any(isinstance(t, ast.Name) and t.id == x.id for t in st.targets):
                    out |= modes(st.value, depth + 1)
            return out or {"?"}
        return {"?"}

    return "|".join(sorted(modes(e)))


def _check_body(ctx, res) -> None:
    import pickle

    idx = ctx.idx
    cg = callgraph.get(ctx)
    for e in OPEN_ENTRIES:
        idx.need_func(e)
    reach = cg.reach(OPEN_ENTRIES)
    res.analysed["open_path_functions"] = len(reach)
    need = [EOFError, pickle.UnpicklingError]

    deser_sites, writer_funcs = [], []
    for f in idx.functions.values():
        if not any(w in f.unit.source for w in ("pickle", "json", "marshal")):
            continue  # (helpers are read in place from the same module only)
        for c in calls_in(common.inlined(idx, f)):
            d = dotted(c.func)
            if not d:
                continue
            r = idx.resolve_dotted(f.unit.modname, d)
            if r in DESER:
                deser_sites.append((f, c, r))
            if r in SER and f not in writer_funcs:
                writer_funcs.append(f)
    res.analysed["deserialisation_sites"] = [f"{f.qualname}:{r}" for f, c, r in deser_sites]

    # ---- atomic-writer disjunct
    def writer_atomic(read_path_norms: Set[str]) -> bool:
        ws = [w for w in writer_funcs if w.unit.modname not in IPC_MODULES]
        if not ws:
            return False
        for w in ws:
            direct = False
            replaced = False
            for c in calls_in(w.node):
                m = _open_mode(c, w.node)
                if m and any(ch in m for ch in "wax+") and norm(c.args[0]) in read_path_norms:
                    direct = True
                d = dotted(c.func)
                if d and idx.resolve_dotted(w.unit.modname, d) in ("os.replace", "os.rename") and len(c.args) == 2 \
                        and norm(c.args[1]) in read_path_norms:
                    replaced = True
            if direct or not replaced:
                return False
        return True

    n_open = 0
    for f, c, r in sorted(deser_sites, key=lambda t: t[0].qualname):
        if f.unit.modname in IPC_MODULES:
            res.analysed.setdefault("excluded", []).append(f"{f.qualname}: {IPC_MODULES[f.unit.modname]}")
            continue
        on_open = f.qualname in reach
        n_open += on_open
        # enclosing try handlers (innermost to outermost within the function)
        handlers: List[ast.ExceptHandler] = []
        for t in walk_local(common.inlined(idx, f)):
            if isinstance(t, ast.Try) and any(x is c for s in t.body for x in ast.walk(s)):
                handlers.extend(t.handlers)
        missing = _covers(handlers, need, f.unit.modname, idx)
        # path expression of the file being read (open(...) in an enclosing with)
        read_paths = set()
        for w in walk_local(common.inlined(idx, f)):
            if isinstance(w, ast.With):
                for it in w.items:
                    if isinstance(it.context_expr, ast.Call) and _open_mode(it.context_expr) is not None:
                        read_paths.add(norm(it.context_expr.args[0]))
        atomic = writer_atomic(read_paths) if read_paths else False
        ok = not missing or atomic
        cname = f.qualname.replace("rope.base.project.", "")
        res.add("R18.1", f"{cname}|{r}", ok, f"{f.unit.rel}:{c.lineno}",
                ("deserialisation tolerates a truncated stream: handlers subsume EOFError and UnpicklingError"
                 if not missing else "every writer of the file is atomic (temp + os.replace)") if ok else
                f"{r} on the project-open path is not protected against {', '.join(m.__name__ for m in missing)} "
                "and the writer truncates the file in place: a crash during save leaves a strict prefix that makes opening the project raise",
                function=f.qualname, on_open_path=on_open, handlers=[handler_names(h) for h in handlers],
                path=cg.path_to(reach, f.qualname) if on_open else None, atomic_writer=atomic)
    res.floor("R18.1", "deserialisation sites on the open path", n_open, 1)

    # ---- R18.2 consumers of read_data tolerate None
    n_cons = 0
    for f in sorted(idx.functions.values(), key=lambda f: f.qualname):
        if "read_data" not in f.unit.source:
            continue
        for c in calls_in(common.inlined(idx, f)):
            if not (isinstance(c.func, ast.Attribute) and c.func.attr == "read_data"):
                continue
            n_cons += 1
            cfg = CFG(common.inlined(idx, f))
            holder = None
            for n in cfg.nodes:
                if n.kind == "stmt" and isinstance(n.ast, ast.Assign) and n.ast.value is c:
                    holder = (n, n.ast.targets[0])
            construct = f"{f.qualname.split('.', 2)[-1]}"
            if holder is None and f.name.startswith("_") and not f.name.startswith("__") and any(
                    isinstance(r_, ast.Return) and r_.value is c for r_ in ast.walk(common.inlined(idx, f))) and any(
                    call_name(c2) == f.name for g2 in idx.functions.values() if g2.unit is f.unit and g2 is not f for c2 in calls_in(g2.node)):
                # a private reader that only hands the data on (`return ...read_data(name)`): its callers are the consumers, and they are
                # analysed with this helper read in place
                n_cons -= 1
                continue
            if holder is None:
                res.undecided("R18.2", construct, f"{f.unit.rel}:{c.lineno}", "read_data result is not bound to a name")
                continue
            rn, target = holder
            tnorm = norm(_load(target))

            def mentions(a):
                return any(norm(x) == tnorm for x in ast.walk(a) if isinstance(x, (ast.Name, ast.Attribute)))

            def none_test(a):  # returns polarity of "X is None" being true on the true-edge
                if isinstance(a, ast.Compare) and len(a.ops) == 1 and norm(a.left) == tnorm \
                        and isinstance(a.comparators[0], ast.Constant) and a.comparators[0].value is None:
                    if isinstance(a.ops[0], (ast.Is, ast.Eq)):
                        return "true"
                    if isinstance(a.ops[0], (ast.IsNot, ast.NotEq)):
                        return "false"
                if norm(a) == tnorm:
                    return "false"  # truthiness: falsy edge may be None
                return None

            tests = [n for n in cfg.nodes if n.kind == "test" and none_test(n.ast)]
            reassign = [n.id for n in cfg.nodes if n.kind == "stmt" and isinstance(n.ast, ast.Assign) and n is not rn
                        and any(norm(_load(t)) == tnorm for t in n.ast.targets)]
            uses = [n for n in cfg.nodes if n.ast is not None and n.kind in ("stmt", "test", "loop") and n is not rn
                    and n not in tests and n.id not in reassign
                    and mentions(n.ast if n.kind != "loop" else n.ast.iter)]
            bad = []
            for u in uses:
                if u.id in cfg.reachable(rn.id, avoid_nodes=[t.id for t in tests] + reassign) and u.id != rn.id:
                    bad.append((u, "no None test on any path"))
                    continue
                for t in tests:
                    lab = none_test(t.ast)
                    for b, l2 in cfg.succ[t.id]:
                        if l2 == lab and u.id in cfg.reachable(b, avoid_nodes=reassign):
                            bad.append((u, "reachable from the None branch"))
            # a consumer that stores into self must have uses elsewhere; only local discipline is decided
            ok = not bad
            res.add("R18.2", construct, ok, f"{f.unit.rel}:{c.lineno}",
                    f"result of read_data is tested against None before each of its {len(uses)} use(s)" if ok else
                    f"read_data may return None (missing/empty/truncated file) but line {bad[0][0].lineno} uses the value {bad[0][1]}",
                    function=f.qualname, uses=[u.lineno for u in uses])
    res.floor("R18.2", "read_data consumers", n_cons, 2)

    # ---- R18.3 side files written by the data writer are never read
    writes = []
    for w in writer_funcs:
        if w.unit.modname in IPC_MODULES:
            continue
        for c in calls_in(w.node):
            m = _open_mode(c, w.node)
            if m and any(ch in m for ch in "wax+"):
                writes.append((w, c))
    reads = []
    for f in idx.functions.values():
        if f.unit.modname in IPC_MODULES or "open(" not in f.unit.source:
            continue
        for c in calls_in(common.inlined(idx, f)):
            m = _open_mode(c, common.inlined(idx, f))
            if m is not None and not any(ch in m for ch in "wax+"):
                reads.append((f, c))
    res.analysed["open_for_read_sites"] = len(reads)
    for w, c in writes:
        p = norm(c.args[0])
        readers = [(f, rc) for f, rc in reads if norm(rc.args[0]) == p]
        src = ast.unparse(c.args[0])  # normalised text: keys must not depend on quoting/formatting
        tolerant_keys = {i.key for i in res.instances if i.rule == "R18.1" and i.status == "ok"}
        bad = []
        for f, rc in readers:
            has = [i for i in res.instances if i.rule == "R18.1" and i.detail.get("function") == f.qualname]
            if not has:  # readers that deserialise are R18.1 instances and are reported there
                bad.append(f.qualname)
        res.add("R18.3", f"{w.qualname.split('.', 3)[-1]}|{src}", not bad if readers else True,
                f"{w.unit.rel}:{c.lineno}",
                (f"written path '{src}' has {len(readers)} reader(s), each one an R18.1 instance" if readers else
                 f"written path '{src}' is write-only: no open-for-read of the same path expression in rope") if not bad else
                f"path '{src}' is truncated in place by the writer and read back by {bad} outside any R18.1-checked deserialisation",
                readers=[f.qualname for f, _ in readers])
    res.floor("R18.3", "data-file write sites", len(writes), 2)
    _r184(ctx, res)
    _r185(ctx, res, writer_funcs)
    _r186(ctx, res, writes)
    history_loader_rule(ctx, res, "R18.7")


def _load(t: ast.AST) -> ast.AST:
    """Copy of a Store target as a Load expression (for structural comparison)."""
    t2 = ast.parse(ast.unparse(t), mode="eval").body
    return t2


def _r184(ctx, res) -> None:
    """R18.4: when no complete object could be read (empty or truncated file) the reader answers None -- the value its
    consumers test for -- never an empty container."""
    idx = ctx.idx
    rd = idx.need_func("rope.base.project._DataFiles.read_data")
    cfg = CFG(common.inlined(idx, rd))
    acc = None
    for n in walk_local(common.inlined(idx, rd)):
        if isinstance(n, ast.Assign) and isinstance(n.value, ast.List) and not n.value.elts and isinstance(n.targets[0], ast.Name):
            acc = n.targets[0].id
    if acc is None:
        res.undecided("R18.4", "read_data|empty", rd.where, "accumulator list of loaded objects not found")
        return
    # other names of the same list (`result = records` after a helper was read in place)
    accs = {acc}
    grew = True
    while grew:
        grew = False
        for n in walk_local(common.inlined(idx, rd)):
            if isinstance(n, ast.Assign) and isinstance(n.value, ast.Name) and n.value.id in accs:
                for t in n.targets:
                    if isinstance(t, ast.Name) and t.id not in accs:
                        accs.add(t.id)
                        grew = True

    def nonempty(t: ast.AST, pol: bool) -> bool:
        """condition (with polarity) implies len(acc) >= 1"""
        if isinstance(t, ast.Name) and t.id in accs:
            return pol
        if isinstance(t, ast.Compare) and len(t.ops) == 1 and isinstance(t.left, ast.Call) and call_name(t.left) == "len" \
                and t.left.args and isinstance(t.left.args[0], ast.Name) and t.left.args[0].id in accs \
                and isinstance(t.comparators[0], ast.Constant) and isinstance(t.comparators[0].value, int):
            k, op = t.comparators[0].value, t.ops[0]
            if pol:
                return (isinstance(op, ast.Eq) and k >= 1) or (isinstance(op, ast.Gt) and k >= 0) or (isinstance(op, ast.GtE) and k >= 1)
            return (isinstance(op, ast.Eq) and k == 0) or (isinstance(op, ast.Lt) and k <= 1) or (isinstance(op, ast.LtE) and k <= 0)
        return False

    bad = []
    indexed = []
    n = 0
    for node in cfg.nodes:
        if node.kind != "stmt" or not isinstance(node.ast, ast.Return) or node.ast.value is None:
            continue
        outer = [(t, p) for t, p in cfg.guards(node.id)]
        # split conditional expressions into their arms
        arms = [(node.ast.value, [])]
        out = []
        while arms:
            v, conds = arms.pop()
            if isinstance(v, ast.IfExp):
                arms.append((v.body, conds + [(v.test, True)]))
                arms.append((v.orelse, conds + [(v.test, False)]))
            else:
                out.append((v, conds))
        for v, conds in out:
            if isinstance(v, ast.Name) and v.id in accs:
                n += 1
                if not any(nonempty(t, p) for t, p in outer + conds):
                    bad.append(node)
            # an element of the list (`result[0]`) exists only when the list is non-empty
            for sub in ast.walk(v):
                if isinstance(sub, ast.Subscript) and isinstance(sub.value, ast.Name) and sub.value.id in accs and not isinstance(sub.slice, ast.Slice):
                    n += 1
                    if not any(nonempty(t, p) for t, p in outer + conds):
                        indexed.append(node)
    res.add("R18.4", "read_data|empty", not bad, rd.where,
            f"the list of loaded objects is returned only when it is non-empty ({n} return arm(s)); otherwise the reader falls through to None" if not bad else
            f"read_data can return the (possibly empty) list of loaded objects (line {bad[0].lineno}) without a test that it is non-empty: for an empty or "
            "truncated data file it answers [] instead of None, the consumers' `is not None` tests pass, and opening the project raises on the empty value")
    res.add("R18.4", "read_data|element-of-empty", not indexed, f"{rd.unit.rel}:{indexed[0].lineno}" if indexed else rd.where,
            "an element of the list of loaded objects is taken only when the list is known to be non-empty" if not indexed else
            f"read_data takes an element of the list of loaded objects (line {indexed[0].lineno}) on a path where the list can be EMPTY: a data file that a "
            "crash left empty or cut inside its first record yields no object at all, the indexing raises IndexError, and the project cannot be opened")


def _r185(ctx, res, writer_funcs) -> None:
    """R18.5: one serialisation record per file per save.  The reader treats a truncated record as "no data"; that
    only covers every crash point if a prefix of the file can never be a complete, shorter sequence of records.  So each
    handle opened for writing receives exactly one dump on every path (no dump inside a loop, no second dump after it)."""
    n = 0
    for w in writer_funcs:
        if w.unit.modname in IPC_MODULES:
            continue
        dumps = [c for c in calls_in(w.node) if isinstance(c.func, ast.Attribute) and c.func.attr == "dump"
                 and isinstance(c.func.value, ast.Name) and c.func.value.id in ("pickle", "json", "marshal") and len(c.args) >= 2]
        if not dumps:
            continue
        cfg = CFG(w.node)
        by_handle = {}
        for c in dumps:
            by_handle.setdefault(norm(c.args[1]), []).append(c)
        for k, (h, cs) in enumerate(sorted(by_handle.items()), 1):
            n += 1
            bad = None
            nodes = []
            for c in cs:
                nodes += [(c, nd) for nd in cfg.node_containing(c) if nd.kind in ("stmt", "test")]
            for c, nd in nodes:
                succs = [b for b, _ in cfg.succ[nd.id]]
                after = set()
                for b in succs:
                    after |= cfg.reachable(b)
                again = [c2 for c2, nd2 in nodes if nd2.id in after]
                if again:
                    bad = (c, "in a loop" if any(nd2.id == nd.id for _, nd2 in nodes if nd2.id in after) else "followed by a second dump")
                    break
            short = w.qualname.split(".", 3)[-1]
            res.add("R18.5", f"{short}|dump#{k}", bad is None, f"{w.unit.rel}:{cs[0].lineno}",
                    f"handle {ast.unparse(cs[0].args[1])} receives exactly one record per save" if bad is None else
                    f"{short} writes several records to {ast.unparse(bad[0].args[1])} ({bad[1]}): a crash after a complete record and before the last one "
                    "leaves a file that loads without error as a shorter value of a different shape, which the consumer (history/object db loading) "
                    "indexes as if it were complete -- opening the project or asking for its history raises", function=w.qualname)
    res.floor("R18.5", "serialisation handles in data writers", n, 1)



def _r186(ctx, res, writes) -> None:
    """R18.6: a data file is rewritten from scratch.  Opened with a truncating mode ('w...'), every crash point leaves
    an empty file or a strict prefix of the new record -- both of which the reader treats as "no data".  An in-place mode
    ('r+', 'a') leaves new bytes followed by the tail of the old record: a stream that may load as garbage or raise an
    exception the reader does not expect."""
    n = 0
    for w, c in writes:
        m = _open_mode(c, w.node) or ""
        n += 1
        alts = m.split("|")
        short = w.qualname.split(".", 3)[-1]
        key = f"{short}|mode:{ast.unparse(c.args[0])}"
        if "?" in alts:
            res.undecided("R18.6", key, f"{w.unit.rel}:{c.lineno}", "open mode not resolved")
            continue
        bad = [a for a in alts if not a.startswith(("w", "x"))]
        res.add("R18.6", key, not bad, f"{w.unit.rel}:{c.lineno}",
                f"opened with truncating mode {alts}" if not bad else
                f"{short} opens the data file {ast.unparse(c.args[0])} with mode {bad} (in place, not truncating): a crash during the save leaves the "
                "beginning of the new record followed by the rest of the old one, which unpickles to garbage or raises something other than "
                "EOFError/UnpicklingError when the project is opened", function=w.qualname)
    res.floor("R18.6", "data-file write sites", n, 2)


def history_loader_rule(ctx, res, rule: str) -> None:
    """R18.7 (shared with C12): loading the saved history must not depend on what is on disk.  A saved RemoveResource
    names something that no longer exists, a saved MoveResource something that has moved.  The data-to-change table
    builds resources with the non-checking constructors; it may not call a lookup that raises for a missing path."""
    idx = ctx.idx
    d2c = idx.need_class("rope.base.change.DataToChange")
    raising = {}
    for f in idx.functions.values():
        if f.unit.modname not in ("rope.base.project", "rope.base.resources", "rope.base.libutils"):
            continue
        for r in common.explicit_raises(f.node):
            t = ast.unparse(r.exc) if r.exc is not None else ""
            if "NotFound" in t:
                raising.setdefault(f.name, f"{f.qualname} raises {t.split('(')[0]}")
    if not raising:
        raise AnalysisError("anchor=project/resources lookups that raise *NotFound* errors not found")
    n = 0
    for mname, m in sorted(d2c.methods.items()):
        if not mname.startswith("make"):
            continue
        n += 1
        bad = [(c, raising[nm]) for c in calls_in(m.node) for nm, _, _ in common.callee_names(m.node, c) if nm in raising]
        res.add(rule, f"DataToChange.{mname}|no-disk-lookup", not bad, m.where if not bad else f"{m.unit.rel}:{bad[0][0].lineno}",
                "resources are rebuilt without looking at the disk" if not bad else
                f"DataToChange.{mname} calls {ast.unparse(bad[0][0].func)} ({bad[0][1]}): a saved history naturally refers to resources that no longer "
                "exist (a removed file, a moved module), so asking for the history after reopening the project raises instead of loading",
                function=m.qualname)
    res.floor(rule, "data-to-change constructors", n, 5)


def history_order_rule(ctx, res, rule: str) -> None:
    """(shared by C11/C12/C18) The saved history is two lists; the element ORDER is the undo/redo order.  Writer and loader
    must agree: slot k written from list L in direction d is rebuilt into L so that (iteration direction x insertion end)
    gives the same order back.  `insert(0, ...)` in a forward loop reverses the list: after a reopen redo() re-applies the
    oldest undone change first.  The payload handed to write_data is evaluated abstractly (list literals, appends, named
    locals, a value-returning private helper), the loader's loops / extend / comprehension assignments likewise, so the
    verdict does not depend on how the two are written."""
    from .c10 import _insert_discipline, _iter_discipline
    idx = ctx.idx
    hist = idx.need_class("rope.base.history.History")
    aliases = common.property_aliases(hist)

    def canon(e):
        if is_self_attr(e):
            return aliases.get(e.attr, e.attr)
        return None

    w = hist.methods.get("write")
    ld = hist.methods.get("_load_history")
    if w is None or ld is None:
        raise AnalysisError("anchor=History.write/_load_history missing")

    def direction(target, it, of) -> Optional[str]:
        """iteration direction of `it` relative to the sub-expression `of` (replaced by the name L)"""
        e = ast.parse(ast.unparse(it).replace(ast.unparse(of), "L"), mode="eval").body
        return _iter_discipline(ast.For(target=target, iter=e, body=[], orelse=[]), "L")

    # ---- writer: abstract value of the payload.  ("seq", attr, direction, node) | ("list", [values]) | None
    def seq_of(e):
        if isinstance(e, (ast.ListComp, ast.GeneratorExp)) and len(e.generators) == 1 and not e.generators[0].ifs:
            g = e.generators[0]
            raw = next((x for x in ast.walk(g.iter) if canon(x)), None)
            if raw is not None:
                return ("seq", canon(raw), direction(g.target, g.iter, raw), e)
        if isinstance(e, ast.Call) and call_name(e) in ("list", "tuple") and len(e.args) == 1:
            return seq_of(e.args[0])
        if isinstance(e, ast.Call) and call_name(e) == "map" and len(e.args) == 2:
            # map(f, <iterable over the list>) is the comprehension [f(x) for x in <iterable>]
            raw = next((x for x in ast.walk(e.args[1]) if canon(x)), None)
            if raw is not None:
                return ("seq", canon(raw), direction(ast.Name(id="_x", ctx=ast.Store()), e.args[1], raw), e)
        return None

    def evaluate(fn, depth=0):
        """-> (env, returned value) after walking fn's statements in source order"""
        env = {}

        def val(e):
            sv = seq_of(e)
            if sv is not None:
                return sv
            if isinstance(e, (ast.List, ast.Tuple)):
                return ("list", [val(x) for x in e.elts])
            if isinstance(e, ast.Name):
                return env.get(e.id)
            if isinstance(e, ast.Call) and is_self_attr(e.func) and depth < 2:
                h = idx.find_method(hist.qualname, e.func.attr)
                if h is not None and h.name.startswith("_"):
                    return evaluate(h, depth + 1)[1]
            return None

        ret = None
        for st in sorted((x for x in walk_local(fn.node) if isinstance(x, ast.stmt)), key=lambda x: (x.lineno, x.col_offset)):
            if isinstance(st, ast.Assign) and len(st.targets) == 1 and isinstance(st.targets[0], ast.Name):
                env[st.targets[0].id] = val(st.value)
            elif isinstance(st, ast.Expr) and isinstance(st.value, ast.Call) and isinstance(st.value.func, ast.Attribute) \
                    and isinstance(st.value.func.value, ast.Name) and isinstance(env.get(st.value.func.value.id), tuple) \
                    and env[st.value.func.value.id][0] == "list" and st.value.args:
                lst = env[st.value.func.value.id][1]
                if st.value.func.attr == "append":
                    lst.append(val(st.value.args[0]))
                elif st.value.func.attr == "insert" and isinstance(st.value.args[0], ast.Constant) and st.value.args[0].value == 0 and len(st.value.args) > 1:
                    lst.insert(0, val(st.value.args[1]))
                elif st.value.func.attr == "extend" and isinstance(val(st.value.args[0]), tuple) and val(st.value.args[0])[0] == "list":
                    lst.extend(val(st.value.args[0])[1])
            elif isinstance(st, ast.Return) and st.value is not None:
                ret = val(st.value)
            elif isinstance(st, ast.Expr) and isinstance(st.value, ast.Call) and call_name(st.value) == "write_data" and len(st.value.args) >= 2:
                ret = val(st.value.args[1])
        return env, ret

    payload = evaluate(w)[1]
    if not (isinstance(payload, tuple) and payload[0] == "list" and len(payload[1]) >= 2 and all(isinstance(x, tuple) and x[0] == "seq" for x in payload[1])):
        raise AnalysisError("anchor=History.write: the payload handed to write_data is not recognised as a list of per-list sequences")
    written = [(x[1], x[2], x[3]) for x in payload[1]]

    # ---- loader: (slot k, attr, net order "same"/"reversed"/None, node)
    loaded = []

    def slot_in(e):
        subs = [x for x in ast.walk(e) if isinstance(x, ast.Subscript) and isinstance(x.slice, ast.Constant) and isinstance(x.slice.value, int)
                and isinstance(x.value, ast.Name)]
        return subs[0] if len(subs) == 1 else None

    from .common import inline_private_calls
    ld_node = inline_private_calls(idx, ld)  # the loops may be a private step (`self._append_loaded(self._undo_list, result[0], to_change)`): read in place
    for x in walk_local(ld_node):
        if isinstance(x, ast.For):
            sub = slot_in(x.iter)
            ins = [c for c in calls_in(x) if isinstance(c.func, ast.Attribute) and c.func.attr in ("append", "insert", "appendleft") and canon(c.func.value)]
            if sub is None or len(ins) != 1:
                continue
            d, insd = direction(x.target, x.iter, sub), _insert_discipline(ins[0])
            net = None if d is None or insd is None else ("same" if (d, insd) in (("forward", "back"), ("backward", "front")) else "reversed")
            loaded.append((sub.slice.value, canon(ins[0].func.value), net, ins[0], f"a {d} loop inserting at the {insd}"))
        elif isinstance(x, ast.Call) and isinstance(x.func, ast.Attribute) and x.func.attr == "extend" and canon(x.func.value) and x.args \
                and isinstance(x.args[0], (ast.GeneratorExp, ast.ListComp)) and len(x.args[0].generators) == 1:
            g = x.args[0].generators[0]
            sub = slot_in(g.iter)
            if sub is None:
                continue
            d = direction(g.target, g.iter, sub)
            loaded.append((sub.slice.value, canon(x.func.value), None if d is None else ("same" if d == "forward" else "reversed"), x, f"extend over a {d} iteration"))
        elif isinstance(x, (ast.Assign, ast.AugAssign)) and isinstance(x.value, (ast.ListComp, ast.GeneratorExp)) and len(x.value.generators) == 1:
            tg = x.targets[0] if isinstance(x, ast.Assign) else x.target
            if isinstance(tg, ast.Subscript):
                tg = tg.value
            g = x.value.generators[0]
            sub = slot_in(g.iter)
            if sub is None or not canon(tg):
                continue
            d = direction(g.target, g.iter, sub)
            loaded.append((sub.slice.value, canon(tg), None if d is None else ("same" if d == "forward" else "reversed"), x, f"a list built over a {d} iteration"))
    if len(loaded) < 2:
        raise AnalysisError("anchor=History._load_history: the places that rebuild the two lists from result[k] not found")
    n = 0
    for k, (attr, wd, st) in enumerate(written):
        mine = [t for t in loaded if t[1] == attr]
        n += 1
        if len(mine) != 1:
            res.add(rule, f"History|saved-order|slot{k}", False, f"{ld.unit.rel}:{ld.node.lineno}",
                    f"{attr} (slot {k} of the saved history) is rebuilt at {len(mine)} places of _load_history", function=ld.qualname)
            continue
        lk, lattr, net_load, call, how = mine[0]
        if wd is None or net_load is None:
            res.undecided(rule, f"History|saved-order|slot{k}", f"{ld.unit.rel}:{call.lineno}", f"iteration/insertion shape not recognised (write {wd}, load {how})")
            continue
        net = net_load if wd == "forward" else ("reversed" if net_load == "same" else "same")
        ok = lk == k and net == "same"
        res.add(rule, f"History|saved-order|slot{k}", ok, f"{ld.unit.rel}:{call.lineno}",
                f"slot {k}: {attr} is saved {wd} and rebuilt in the same order" if ok else
                (f"{attr} is written to slot {k} of the saved history but rebuilt from slot {lk}: after close + reopen the undo and redo lists are exchanged" if lk != k else
                 f"slot {k}: {attr} is saved {wd} but rebuilt with {how}: the list comes back REVERSED, so after "
                 "close + reopen undo()/redo() take the oldest entry first and no longer restore the state before / after the last change"),
                function=ld.qualname)
    res.floor(rule, "saved history slots", n, 2)


def check(ctx, res) -> None:
    _check_body(ctx, res)
    _reading_changes_nothing_rule(ctx, res)


def _reading_changes_nothing_rule(ctx, res) -> None:
    """R18.8: opening a project whose data files are in a crash state READS them and goes on with "nothing saved".  The reader of the
    data files (`_DataFiles.read_data` and the private helpers it calls) performs no change: it calls no mutator of a resource
    (`remove`, `write`, `move`, `create_*`) and no `do` -- each of them runs through `project.do`, i.e. through the history, which
    is one of the things being loaded (the history's own loader re-enters itself without end; a removal while the object
    data are read clears the redo list that was just loaded)."""
    from .common import with_private_helpers
    idx = ctx.idx
    rd = idx.need_func("rope.base.project._DataFiles.read_data")
    fam = with_private_helpers(idx, rd, depth=3)
    MUT = {"remove", "write", "write_bytes", "move", "create_file", "create_folder", "create", "do", "unlink", "rmtree", "rename", "replace"}
    n = 0
    for g in fam:
        for c in calls_in(g.node):
            if isinstance(c.func, ast.Attribute) and c.func.attr in MUT:
                n += 1
                res.fail("R18.8", f"_DataFiles.{g.name}|reading-changes-nothing#{n}", f"{g.unit.rel}:{c.lineno}",
                         f"`{ast.unparse(c)[:60]}` on the path that READS a data file: a resource mutator runs through project.do and the history -- while the history itself is being "
                         "loaded from a cut file this re-enters the loader without end (RecursionError out of `project.history`), and a removal while the object data are read "
                         "clears the redo list that was loaded from an intact file", function=g.qualname)
    res.add("R18.8", "_DataFiles.read_data|reading-changes-nothing", n == 0, rd.where,
            f"{len(fam)} function(s) on the reading path call no resource mutator" if n == 0 else f"{n} mutating call(s) on the reading path", functions=[g.qualname for g in fam])
