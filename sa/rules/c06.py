"""C06 -- signature changes keep calls bound to the same values (R06.1-R06.15)."""
from __future__ import annotations

import ast
from typing import List, Optional, Set

from .. import argalign
from ..cfg import CFG
from ..core import AnalysisError, call_name, calls_in, is_self_attr, param_names, walk_local
from ..grammar import G, PARAM_SLOTS
from . import common

EXPLANATION = (
    "R06.1: every function of the signature-handling modules that destructures ast.arguments (a) reads all five "
    "parameter slots and both default lists, and (b) pairs default values with the parameter lists the language "
    "reference aligns them with -- `defaults` with exactly posonlyargs+args, `kw_defaults` with exactly kwonlyargs -- "
    "decided by a forward, statement-ordered taint on what is zipped with each default list.  R06.2: no `assert` on "
    "the call-parsing path tests a field of a node of the analysed program's AST (such an assert turns an unusual "
    "but valid call into an internal AssertionError).  R06.3: inside a changer, the call-side mapping drops a component "
    "only under the same `self.index` selection under which the definition side drops the corresponding component "
    "(sibling agreement).  R06.4: the call-site loop analyses every resource, or skips one only on a test of every "
    "finder name.  R06.5: introduce-parameter (which rewrites no call site) only appends to the parameter list.  R06.6: the reorderer's new parameter list takes its length from the old list (a permutation), not from new_order.  R06.7 (=R14.9): the simplified text on which calls are recognised keeps every f-string prefix's text.  The positional/keyword mapping arithmetic and the changer "
    "pipeline are not decided."
    ' R06.9 (=R14.14): text handed back by the word finder is cut from the raw source, never from the blanked search text.'
)
EXPLANATION += ' R06.13: mapping keys read off args_with_defaults are names (two subscripts).  R06.14: line/column pairs.'
EXPLANATION += ' R06.12: the positional part of a rebuilt call is cut short only when no surplus positional arguments follow.'
EXPLANATION += ' R06.10: a `col_offset`/`end_col_offset` of an AST node (UTF-8 bytes) reaches a character offset only through codeanalyze.column_to_offset; it is otherwise only compared, or is the start column of a node tested to be a statement. R06.11: a function that remembers its answer under a key reads, in the computation of the remembered value, nothing of its parameters that the key does not contain (followed into the helpers it calls).'
EXPLANATION += " R06.15: the readers of calls and definitions remove exactly the star prefix their test established (the writer puts exactly that prefix back)."
EXPLANATION += " R06.17: call sites are rewritten from the last to the first on a working text (the region of a call contains its arguments, which can hold another call of the changed function); no parenthesis-ended region is collected as an independent replacement."
EXPLANATION += " R06.16: inside the loop over the files of a refactoring no handler swallows an error (a file is never silently left out of a multi-file change)."
ASSUMPTIONS = ["alignment rule of the language reference as recorded in sa/grammar.py DEFAULT_ALIGNMENT",
               "a node of the analysed program = anything derived from self.ast / ast.parse(...) inside the parser classes"]

MODULES = ("rope.refactor.functionutils", "rope.refactor.change_signature", "rope.refactor.introduce_parameter")


def check(ctx, res) -> None:
    idx = ctx.idx
    n = 0
    for f in sorted(idx.functions.values(), key=lambda f: f.qualname):
        if f.unit.modname not in MODULES or not argalign.destructures(f.node):
            continue
        n += 1
        name = f.qualname.split(".", 3)[-1]
        rd = argalign.reads(f.node)
        for slot in PARAM_SLOTS + ["defaults", "kw_defaults"]:
            res.add("R06.1", f"{name}|reads:{slot}", slot in rd, f.where,
                    f"arguments.{slot} is read" if slot in rd else
                    f"{name} destructures ast.arguments but never reads .{slot}: parameters of that kind are silently dropped from the parsed signature")
        ps = argalign.pairings(f.node)
        seen = set()
        for p in ps:
            seen.add(p.which)
            allowed = "posonlyargs + args" if p.which == "defaults" else "kwonlyargs"
            res.add("R06.1", f"{name}|pairs:{p.which}", p.ok, f"{f.unit.rel}:{p.node.lineno}",
                    f"{p.which} is zipped with a list derived from exactly {allowed}" if p.ok else
                    f"{name} zips arguments.{p.which} with a list derived from {sorted(p.labels) or 'no parameter list'} instead of exactly {allowed}: "
                    "default values are attached to the wrong parameters and the re-emitted header is wrong or invalid",
                    labels=sorted(p.labels))
        for which in ("defaults", "kw_defaults"):
            if which in rd and which not in seen:
                res.undecided("R06.1", f"{name}|pairs:{which}", f.where, f"how {which} is paired with parameters was not recognised")
    res.floor("R06.1", "functions destructuring ast.arguments in the signature modules", n, 1)

    # ---- R06.2 asserts on the analysed program's shape
    n2 = 0
    for q, c in sorted(idx.classes.items()):
        if c.unit.modname not in MODULES:
            continue
        for m in c.methods.values():
            # names derived from self.ast (loop variables over its fields)
            derived: Set[str] = set()
            for x in walk_local(m.node):
                if isinstance(x, (ast.For, ast.comprehension)):
                    if any(is_self_attr(y, "ast") for y in ast.walk(x.iter)):
                        derived |= {t.id for t in ast.walk(x.target) if isinstance(t, ast.Name)}
            for a in walk_local(m.node):
                if not isinstance(a, ast.Assert):
                    continue
                n2 += 1
                fields = [x for x in ast.walk(a.test) if isinstance(x, ast.Attribute)
                          and ((isinstance(x.value, ast.Name) and x.value.id in derived) or
                               (isinstance(x.value, ast.Attribute) and is_self_attr(x.value, "ast")))
                          and any(ct.field(x.attr) for ct in G.ctors.values())]
                ok = not fields
                res.add("R06.2", f"{c.name}.{m.name}|assert:{ast.unparse(a.test)[:40]}", ok, f"{m.unit.rel}:{a.lineno}",
                        "assert does not test a field of the analysed program's AST" if ok else
                        f"`assert {ast.unparse(a.test)}` tests a field of a node of the analysed program ({ast.unparse(fields[0])}): a valid call shape "
                        "for which it is false (e.g. f(1, **d): keyword.arg is None) makes every signature change raise AssertionError instead of a rope error")
    res.floor("R06.2", "asserts in the signature modules", n2, 2)

    # ---- R06.3 sibling agreement inside a changer: the call-side mapping may drop a component only under the same
    # index selection under which the definition side drops the corresponding component
    from ..cfg import CFG
    from .common import mutated_exprs

    PAIR = {"args_with_defaults": "param_dict", "args_arg": "args_arg", "keywords_arg": "keyword_args"}
    base = idx.need_class("rope.refactor.change_signature._ArgumentChanger")
    n3 = 0
    for q in idx.subclasses(base.qualname):
        c = idx.classes[q]
        d, m = c.methods.get("change_definition_info"), c.methods.get("change_argument_mapping")
        if not d or not m:
            continue

        def removals(fn):
            """component -> set of (comparison op on self.index, polarity) guarding its removal"""
            cfg = CFG(fn.node)
            pname = param_names_(fn)
            out = {}
            for n in cfg.nodes:
                if n.kind != "stmt" or n.ast is None:
                    continue
                comps = set()
                a = n.ast
                if isinstance(a, ast.Delete):
                    for t in a.targets:
                        for x in ast.walk(t):
                            if isinstance(x, ast.Attribute) and isinstance(x.value, ast.Name) and x.value.id in pname:
                                comps.add(x.attr)
                if isinstance(a, ast.Assign) and len(a.targets) == 1 and isinstance(a.targets[0], ast.Attribute) \
                        and isinstance(a.targets[0].value, ast.Name) and a.targets[0].value.id in pname:
                    v = a.value
                    if (isinstance(v, ast.Constant) and v.value is None) or (isinstance(v, (ast.List, ast.Dict, ast.Tuple)) and not getattr(v, "elts", getattr(v, "keys", []))):
                        comps.add(a.targets[0].attr)
                for e in mutated_exprs(a):
                    if isinstance(e, ast.Attribute) and isinstance(e.value, ast.Name) and e.value.id in pname and \
                            any(call_name(cc) in ("clear", "pop", "remove") for cc in calls_in(a)):
                        comps.add(e.attr)
                if not comps:
                    continue
                sel = set()
                for t, pol in cfg.guards(n.id):
                    if isinstance(t, ast.Compare) and len(t.ops) == 1 and is_self_attr(t.left, "index"):
                        sel.add((type(t.ops[0]).__name__, pol))
                for comp in comps:
                    out.setdefault(comp, []).append((sel, n))
            return out

        def param_names_(fn):
            return [a.arg for a in fn.node.args.args][1:]

        dr, mr = removals(d), removals(m)
        for dcomp, mcomp in PAIR.items():
            if mcomp not in mr:
                continue
            n3 += 1
            d_sel = [s_ for s_, _ in dr.get(dcomp, [])]
            for m_sel, node in mr[mcomp]:
                pos = {x for x in m_sel if x[1]}
                ok = bool(d_sel) and any(pos and pos <= {x for x in ds if x[1]} | set() and {x for x in ds if x[1]} <= pos for ds in d_sel)
                res.add("R06.3", f"{c.name}|{mcomp}", ok, f"{m.unit.rel}:{node.lineno}",
                        f"call-side removal of {mcomp} is selected by the same index test as the definition-side removal of {dcomp}" if ok else
                        f"{c.name}.change_argument_mapping drops mapping.{mcomp} under the index selection {sorted(m_sel)} while change_definition_info drops "
                        f"{dcomp} under {[sorted(x) for x in d_sel]}: call sites lose the values bound to a parameter that the definition keeps")
    res.floor("R06.3", "changer components removed on the call side", n3, 1)

    # ---- R06.5 introduce-parameter never rewrites call sites, so the only position at which it may add the new
    # (defaulted) parameter without re-binding existing positional arguments is the END of the positional parameters
    ip = idx.need_class("rope.refactor.introduce_parameter.IntroduceParameter")
    rewrites_calls = any(isinstance(x, ast.Attribute) and x.attr in ("ArgumentMapping", "CallInfo", "ChangeSignature", "ArgumentAdder")
                         for m in ip.methods.values() for x in ast.walk(m.node))
    n5 = 0
    for mname, m in sorted(ip.methods.items()):
        alias = set()
        for x in walk_local(m.node):
            if isinstance(x, ast.Assign) and isinstance(x.value, ast.Attribute) and x.value.attr == "args_with_defaults":
                alias |= {t.id for t in x.targets if isinstance(t, ast.Name)}
        for st in walk_local(m.node):
            if not isinstance(st, ast.stmt):
                continue
            for e in mutated_exprs(st):
                if (isinstance(e, ast.Attribute) and e.attr == "args_with_defaults") or (isinstance(e, ast.Name) and e.id in alias):
                    n5 += 1
                    calls = [c for c in calls_in(st) if isinstance(c.func, ast.Attribute) and c.func.value is e]
                    back = bool(calls) and all(c.func.attr == "append" for c in calls)
                    if rewrites_calls:
                        res.undecided("R06.5", f"IntroduceParameter.{mname}|position", f"{m.unit.rel}:{st.lineno}",
                                      "introduce-parameter now refers to the call-rewriting machinery; the append-only argument no longer applies")
                        continue
                    res.add("R06.5", f"IntroduceParameter.{mname}|position", back, f"{m.unit.rel}:{st.lineno}",
                            "the new parameter is appended after all existing positional parameters" if back else
                            f"IntroduceParameter.{mname} changes the parameter list with `{ast.unparse(st)[:60]}` (not a plain append) although it never "
                            "rewrites call sites: a call that passes a later parameter positionally now binds that value to the new parameter",
                            function=m.qualname)
    res.floor("R06.5", "parameter-list mutations in IntroduceParameter", n5, 1)

    # ---- R06.6 a reorder is a permutation of ALL parameters: the list written back to the definition takes its length
    # from the old parameter list (a copy that is then overwritten by index), never from the caller's `new_order`
    ro = idx.need_func("rope.refactor.change_signature.ArgumentReorderer.change_definition_info")
    dparam = param_names(ro.node)[1] if len(param_names(ro.node)) > 1 else None
    from .common import inline_private_calls
    ro_node = inline_private_calls(idx, ro)  # steps moved into private helpers are read in place
    old_alias = set()
    for x in walk_local(ro_node):
        if isinstance(x, ast.Assign) and isinstance(x.targets[0], ast.Name) and isinstance(x.value, ast.Attribute) \
                and x.value.attr == "args_with_defaults" and isinstance(x.value.value, ast.Name) and x.value.value.id == dparam:
            old_alias.add(x.targets[0].id)

    def is_old(e: ast.AST) -> bool:
        return (isinstance(e, ast.Attribute) and e.attr == "args_with_defaults" and isinstance(e.value, ast.Name) and e.value.id == dparam) or \
            (isinstance(e, ast.Name) and e.id in old_alias)

    def length_source(e: ast.AST) -> Optional[str]:
        """'old' if the list has the old list's length, 'order' if it has new_order's length, None if unknown"""
        if isinstance(e, ast.Call) and call_name(e) in ("list", "copy", "deepcopy") and e.args and is_old(e.args[0]):
            return "old"
        if isinstance(e, ast.Call) and isinstance(e.func, ast.Attribute) and e.func.attr == "copy" and is_old(e.func.value):
            return "old"
        if isinstance(e, ast.Subscript) and isinstance(e.slice, ast.Slice) and e.slice.lower is None and e.slice.upper is None and is_old(e.value):
            return "old"
        if isinstance(e, (ast.ListComp, ast.GeneratorExp)) and len(e.generators) == 1 and not e.generators[0].ifs:
            it = e.generators[0].iter
            inner = it.args[0] if isinstance(it, ast.Call) and call_name(it) in ("enumerate", "range", "len") and it.args else it
            if isinstance(inner, ast.Call) and call_name(inner) == "len" and inner.args:
                inner = inner.args[0]
            if is_old(inner):
                return "old"
            if is_self_attr(inner, "new_order"):
                return "order"
        if isinstance(e, ast.Call) and call_name(e) == "list" and e.args:
            return length_source(e.args[0])
        return None

    written = [x for x in walk_local(ro_node) if isinstance(x, ast.Assign) and any(
        isinstance(t, ast.Attribute) and t.attr == "args_with_defaults" and isinstance(t.value, ast.Name) and t.value.id == dparam for t in x.targets)]
    if not written:
        raise AnalysisError("anchor=ArgumentReorderer.change_definition_info: write-back of args_with_defaults not found")
    for w_ in written:
        v = w_.value
        src = length_source(v)
        if src is None and isinstance(v, ast.Name):
            defs = [x.value for x in walk_local(ro_node) if isinstance(x, ast.Assign) and isinstance(x.targets[0], ast.Name) and x.targets[0].id == v.id]
            srcs = {length_source(d) for d in defs}
            src = "order" if "order" in srcs else ("old" if srcs == {"old"} else None)
            # appends/deletes on the list change its length too
            if src == "old" and any(isinstance(c.func, ast.Attribute) and isinstance(c.func.value, ast.Name) and c.func.value.id == v.id
                                    and c.func.attr in ("append", "pop", "remove", "insert", "extend", "clear") for c in calls_in(ro_node)):
                src = None
        guarded = any(isinstance(x, (ast.Assert, ast.If)) and "len(" in ast.unparse(x.test) and "new_order" in ast.unparse(x.test) for x in walk_local(ro_node))
        if src is None:
            res.undecided("R06.6", "ArgumentReorderer|length", f"{ro.unit.rel}:{w_.lineno}", "how the reordered list gets its length was not recognised")
        else:
            ok = src == "old" or guarded
            res.add("R06.6", "ArgumentReorderer|length", ok, f"{ro.unit.rel}:{w_.lineno}",
                    "the reordered parameter list is a copy of the old list overwritten by index (same length)" if ok else
                    "ArgumentReorderer builds the new parameter list by iterating over `new_order`, so it has as many entries as the caller listed: "
                    "with a shorter order (`[1, 0]` on `f(a, b, c)`) the remaining parameters are dropped from the definition and their values from every call",
                    function=ro.qualname)

    # ---- R06.4 call-site discovery looks at every resource: a path through the resources loop that skips the
    # occurrence analysis is only sound if its condition rules out every name the finders search for
    cc = idx.need_func("rope.refactor.change_signature.ChangeSignature._change_calls")
    from .common import inlined as _inl
    cfg = CFG(_inl(idx, cc))  # the per-file step may be a private method of the class: read in place
    finder_names = []
    from .common import with_private_helpers
    for g in with_private_helpers(idx, cc):  # the finders may be built in a private helper of _change_calls
        for c in calls_in(g.node):
            if call_name(c) == "create_finder" and len(c.args) >= 2:
                finder_names.append(ast.unparse(c.args[1]))
    loops = [n for n in cfg.nodes if n.kind == "loop" and isinstance(n.ast, ast.For)
             and any(call_name(x) == "get_changed_module" for x in calls_in(n.ast))]
    if not loops or not finder_names:
        raise AnalysisError("anchor=_change_calls: resources loop / finders not found")
    lp = loops[0]
    body_entry = [b for b, l in cfg.succ[lp.id] if l == "true"][0]
    analysis = [n.id for n in cfg.nodes if n.ast is not None and n.kind in ("stmt", "test")
                and any(call_name(x) == "get_changed_module" for x in calls_in(n.ast))]
    skipping = lp.id in cfg.reachable(body_entry, avoid_nodes=analysis, labels={"", "true", "false", "continue", "case", "nomatch"})
    ok = True
    tested = set()
    if skipping:
        # conditions on the skipping paths: textual membership tests `X in <text>` / `X not in <text>`
        for n in cfg.nodes:
            if n.kind == "test" and isinstance(n.ast, ast.Compare) and isinstance(n.ast.ops[0], (ast.In, ast.NotIn)):
                tested.add(ast.unparse(n.ast.left))
        ok = all(fn in tested for fn in finder_names)
    res.add("R06.4", "_change_calls|every-resource", ok, cc.where,
            "every resource of the loop reaches the occurrence analysis" + (" (or is skipped only when none of the finder names occurs in it)" if skipping else "") if ok else
            f"_change_calls can skip a module without analysing it, on a condition that tests {sorted(tested) or 'nothing'} but the finders search for "
            f"{finder_names}: for a constructor change, modules that call C(...) without mentioning __init__ keep their old argument order")

    # ---- R06.7 (=R14.9): call sites are recognised on the simplified text; code inside f-strings must survive there
    from .c14 import fstring_prefix_rule

    fstring_prefix_rule(ctx, res, "R06.7")

    # ---- R06.8 the receiver of a method call is everything up to the LAST dot before the parentheses
    cp = idx.need_func("rope.refactor.functionutils._FunctionCallParser.get_parameters")
    n8 = 0
    for c in calls_in(cp.node):
        if isinstance(c.func, ast.Attribute) and c.func.attr in ("index", "rindex", "find", "rfind", "split", "rsplit", "partition", "rpartition") \
                and c.args and isinstance(c.args[0], ast.Constant) and c.args[0].value == ".":
            n8 += 1
            ok = c.func.attr.startswith("r")
            res.add("R06.8", f"_FunctionCallParser.get_parameters|receiver-split#{n8}", ok, f"{cp.unit.rel}:{c.lineno}",
                    "the call text is split at the last dot" if ok else
                    f"the implicit first argument of a method call is cut with `{ast.unparse(c.func)}` at the FIRST dot: `self.inner.scale(2, 3)` is re-emitted "
                    "as `self.scale(...)`, i.e. with another receiver", function=cp.qualname)
    res.floor("R06.8", "receiver splits in the call parser", n8, 1)

    # ---- R06.9 text handed back by the word finder is cut from the raw source, never from the blanked search text
    from .common import raw_text_rule

    raw_text_rule(ctx, res, "R06.9")
    # ---- R06.10 argument texts are cut at character offsets: the byte columns of the AST are converted first
    from .common import byte_column_rule, column_to_offset_anchor

    column_to_offset_anchor(ctx, res, "R06.10")
    byte_column_rule(ctx, res, "R06.10", ("rope.refactor.functionutils",))
    # ---- R06.11 a remembered call rewrite is keyed by everything it was computed from
    from .common import memo_key_rule

    memo_key_rule(ctx, res, "R06.11", ("rope.refactor.change_signature", "rope.refactor.functionutils"))
    _surplus_positionals_rule(ctx, res)
    _mapping_key_is_a_name_rule(ctx, res)
    from .common import position_pair_rule

    position_pair_rule(ctx, res, "R06.14", ("rope.refactor.occurrences", "rope.refactor.functionutils", "rope.base.evaluate", "rope.refactor.patchedast", "rope.base.codeanalyze"))
    _star_prefix_symmetry_rule(ctx, res)
    from .common import per_file_no_skip_rule as _pf

    _pf(ctx, res, "R06.16", ('rope.refactor.change_signature', 'rope.refactor.introduce_parameter'))
    _nested_call_regions_rule(ctx, res)


def _surplus_positionals_rule(ctx, res) -> None:
    """R06.12: the surplus positional arguments of a call (`self.args_arg`: those that were bound to `*args` under the OLD
    signature) are appended after the positional arguments rebuilt for the NEW signature.  They land in `*args` again only
    if every parameter in front of it was given a value: the loop over the new parameters may stop at a parameter without
    a value (`break`, the rest by keyword) only when there are no surplus positionals -- the `break` stands under a test
    that `self.args_arg` is empty."""
    idx = ctx.idx
    f = idx.need_func("rope.refactor.functionutils.ArgumentMapping.to_call_info")
    cfg = CFG(f.node)
    ext = [nd for nd in cfg.nodes if nd.kind == "stmt" and nd.ast is not None and any(
        isinstance(c.func, ast.Attribute) and c.func.attr == "extend" and c.args and is_self_attr(c.args[0], "args_arg") for c in calls_in(nd.ast))]
    if not ext:
        raise AnalysisError("anchor=ArgumentMapping.to_call_info: `args.extend(self.args_arg)` not found")
    n = 0
    for nd in cfg.nodes:
        if nd.kind != "stmt" or not isinstance(nd.ast, ast.Break):
            continue
        n += 1
        ok = any(((not pol and is_self_attr(t, "args_arg")) or (pol and isinstance(t, ast.UnaryOp) and isinstance(t.op, ast.Not) and is_self_attr(t.operand, "args_arg")))
                 for t, pol in cfg.guards(nd.id))
        res.add("R06.12", f"ArgumentMapping.to_call_info|no-gap-before-surplus-positionals#{n}", ok, f"{f.unit.rel}:{nd.lineno}",
                "the positional part is cut short only when no surplus positional arguments follow" if ok else
                "the loop over the new parameters stops at the first one without a value and the surplus positional arguments are appended right behind: after adding "
                "`scale=1` in front of `*rest`, the call `total(1, 2, 3)` is left as it is and 2 is bound to `scale` instead of `rest` -- the program computes another "
                "result without any error", function=f.qualname)
    res.floor("R06.12", "early exits of the positional loop", n, 1)


def _mapping_key_is_a_name_rule(ctx, res) -> None:
    """R06.13 (sibling agreement): the argument changers edit a call's mapping `mapping.param_dict`, keyed by parameter NAME.
    `definition_info.args_with_defaults` is a list of (name, default) pairs.  Every key a changer uses with `param_dict`
    (membership test, subscript, del) that is read off that list is the NAME component of the pair at the changer's own
    position: `args_with_defaults[<index>][0]` -- two subscripts.  One subscript yields a pair, which is never a key of the
    mapping: the update silently does nothing."""
    idx = ctx.idx
    n = 0
    for c in sorted(idx.classes.values(), key=lambda c: c.qualname):
        if c.unit.modname != "rope.refactor.change_signature":
            continue
        m = c.methods.get("change_argument_mapping")
        if m is None:
            continue
        # locals read off args_with_defaults: name -> number of subscripts applied
        depth = {}
        for x in walk_local(m.node):
            if isinstance(x, ast.Assign) and len(x.targets) == 1 and isinstance(x.targets[0], ast.Name):
                k, v = 0, x.value
                while isinstance(v, ast.Subscript):
                    k, v = k + 1, v.value
                if isinstance(v, ast.Attribute) and v.attr == "args_with_defaults" and k:
                    depth[x.targets[0].id] = (k, x)
        for x in walk_local(m.node):
            keys = []
            if isinstance(x, ast.Compare) and len(x.ops) == 1 and isinstance(x.ops[0], (ast.In, ast.NotIn)) and isinstance(x.comparators[0], ast.Attribute) and x.comparators[0].attr == "param_dict":
                keys.append(x.left)
            if isinstance(x, ast.Subscript) and isinstance(x.value, ast.Attribute) and x.value.attr == "param_dict":
                keys.append(x.slice)
            for k in keys:
                if isinstance(k, ast.Name) and k.id in depth:
                    n += 1
                    d, src = depth[k.id]
                    res.add("R06.13", f"{c.name}.change_argument_mapping|key-is-the-name:{k.id}@{x.lineno - m.node.lineno}", d == 2, f"{m.unit.rel}:{src.lineno}",
                            "the key is the name component of the pair" if d == 2 else
                            f"{c.name} uses `{ast.unparse(src.value)}` -- a (name, default) PAIR -- as a key of the call's name-keyed mapping: the test is never true and the "
                            "entry of the removed parameter stays; a later changer that adds a parameter of that name picks the stale value up (remove `a`, add a new "
                            "`a=10`: `f(1, 2)` becomes `f(2, 1)`)", function=m.qualname)
    res.floor("R06.13", "mapping keys read off args_with_defaults", n, 2)



def _star_prefix_symmetry_rule(ctx, res) -> None:
    """R06.15: the reader of a call / definition takes the trailing `*args` and `**kwds` entries off the argument list and stores them
    WITHOUT their stars; the writer (`to_string`) puts exactly `"*"` and `"**"` back.  What the reader removes is therefore
    exactly the prefix its own test established: under `<entry>.startswith(P)` the stored text is `<entry>[len(P):]` (or
    `removeprefix(P)`).  `lstrip("*")` removes as many stars as there are: a call with two mappings, `f(1, **base, **extra)`,
    reaches the one-star test with the entry `**base`, and the call comes back as `f(1, *base, **extra)`."""
    idx = ctx.idx
    mod = "rope.refactor.functionutils"
    from .common import _subst_single_locals
    n = 0
    for f in sorted(idx.functions.values(), key=lambda f: f.qualname):
        if f.unit.modname != mod:
            continue
        if not any(isinstance(c, ast.Call) and call_name(c) == "startswith" and c.args and isinstance(c.args[0], ast.Constant) and isinstance(c.args[0].value, str)
                   and c.args[0].value and set(c.args[0].value) == {"*"} for c in ast.walk(f.node)):
            continue
        cfg = CFG(f.node)
        for nd in cfg.nodes:
            st = nd.ast
            if nd.kind != "stmt" or not (isinstance(st, ast.Assign) and len(st.targets) == 1):
                continue
            v = st.value
            ok = how = None
            if isinstance(v, ast.Subscript) and isinstance(v.slice, ast.Slice) and v.slice.upper is None and isinstance(v.slice.lower, ast.Constant):
                how = ("slice", v.slice.lower.value)
            elif isinstance(v, ast.Call) and isinstance(v.func, ast.Attribute) and v.func.attr == "removeprefix" and v.args and isinstance(v.args[0], ast.Constant):
                how = ("removeprefix", v.args[0].value)
            elif isinstance(v, ast.Call) and isinstance(v.func, ast.Attribute) and v.func.attr in ("lstrip", "strip") and v.args and isinstance(v.args[0], ast.Constant) \
                    and isinstance(v.args[0].value, str) and "*" in v.args[0].value:
                how = ("strip", v.args[0].value)
            if how is None:
                continue
            # the star prefix established for this statement: the longest `startswith("*"...)` among its positive guards
            prefixes = [c.args[0].value for t, pol in cfg.guards(nd.id) if pol for c in ast.walk(t)
                        if isinstance(c, ast.Call) and call_name(c) == "startswith" and c.args and isinstance(c.args[0], ast.Constant)
                        and isinstance(c.args[0].value, str) and c.args[0].value and set(c.args[0].value) == {"*"}]
            if not prefixes:
                continue
            prefix = max(prefixes, key=len)
            ok = (how[0] == "slice" and how[1] == len(prefix)) or (how[0] == "removeprefix" and how[1] == prefix)
            n += 1
            res.add("R06.15", f"{f.qualname.split('.', 3)[-1]}|stars-removed-as-tested:{prefix}#{n}", ok, f"{f.unit.rel}:{st.lineno}",
                    f"under startswith({prefix!r}) exactly {len(prefix)} character(s) are removed" if ok else
                    f"under `startswith({prefix!r})` the entry is stored as `{ast.unparse(v)[:50]}`: that does not remove exactly the {len(prefix)} star(s) the test "
                    "established -- the second mapping of `f(1, **base, **extra)` reaches the one-star test as `**base`, is stored as `base`, and the writer puts ONE star "
                    "back: `f(1, *base, **extra)` passes the keys positionally", function=f.qualname)
    res.floor("R06.15", "star prefixes removed by the readers of calls and definitions", n, 2)


def _nested_call_regions_rule(ctx, res) -> None:
    """R06.17: the region that is replaced for one call site reaches from the start of the primary to the closing parenthesis -- it CONTAINS
    the argument list, and an argument can be another call of the changed function: `f(f(1, 2), 3)`.  Regions of different occurrences are
    then nested, not disjoint.  Independent (start, end, text) triples whose new text is rebuilt from the ORIGINAL text cannot express
    that: the outer replacement carries the stale inner call and the collector writes both.  So in the per-module rewriter: (a) no
    replacement whose end comes from the parenthesis scan is handed to a ChangeCollector; (b) the replacements are spliced into a working
    text from the LAST occurrence to the first (`reversed`), the text handed to the call changer is cut from that working text, and the
    parenthesis scan is redone on the working text inside the loop (a Worder built from it)."""
    idx = ctx.idx
    f = idx.need_func("rope.refactor.change_signature._ChangeCallsInModule.get_changed_module")
    fnode = common.inlined(idx, f)
    paren_ends = set()
    for a in walk_local(fnode):
        if isinstance(a, ast.Assign) and isinstance(a.value, ast.Call) and call_name(a.value) == "get_word_parens_range":
            for t in a.targets:
                if isinstance(t, ast.Tuple) and len(t.elts) == 2 and isinstance(t.elts[1], ast.Name):
                    paren_ends.add(t.elts[1].id)
        # `call_end = word_finder.get_word_parens_range(...)[1]`
        if isinstance(a, ast.Assign) and isinstance(a.value, ast.Subscript) and isinstance(a.value.value, ast.Call) and call_name(a.value.value) == "get_word_parens_range" \
                and isinstance(a.value.slice, ast.Constant) and a.value.slice.value == 1:
            paren_ends |= {t.id for t in a.targets if isinstance(t, ast.Name)}
    if not paren_ends:
        raise AnalysisError("anchor=_ChangeCallsInModule.get_changed_module: the scan for the closing parenthesis of a call (get_word_parens_range) not found")
    collected = [c for c in calls_in(fnode) if call_name(c) == "add_change" and len(c.args) >= 2 and isinstance(c.args[1], ast.Name) and c.args[1].id in paren_ends]
    loops = [l for l in walk_local(fnode) if isinstance(l, ast.For) and any(call_name(c) in ("change_call", "change_definition") for c in calls_in(l))]
    if not loops:
        raise AnalysisError("anchor=_ChangeCallsInModule.get_changed_module: the loop over the occurrences not found")
    lp = loops[0]
    it = common._subst_single_locals(fnode, lp.iter)
    backwards = isinstance(it, ast.Call) and call_name(it) == "reversed"
    spliced = {t.id for a in ast.walk(lp) if isinstance(a, ast.Assign) and isinstance(a.value, ast.BinOp) for t in a.targets if isinstance(t, ast.Name)
               and any(isinstance(sl, ast.Subscript) and isinstance(sl.value, ast.Name) and sl.value.id == t.id for sl in ast.walk(a.value))}
    # (every call of the changer: what its text argument is cut from -- a name, or "<other>" for anything else, e.g. `self.source[...]`)
    def text_arg(c):
        e = c.args[-1]
        if isinstance(e, ast.Name):  # a local that holds the slice (the parameter of a step read in place)
            e = common._subst_single_locals(fnode, e)
        return e.value.id if isinstance(e, ast.Subscript) and isinstance(e.value, ast.Name) else "<other>"

    cut_from = {text_arg(c) for c in calls_in(lp) if call_name(c) in ("change_call", "change_definition") and c.args}
    rescans = any(call_name(c) == "Worder" and c.args and isinstance(c.args[0], ast.Name) and c.args[0].id in spliced for c in calls_in(lp))
    # the rescan is decided by where the CALL ends (its closing parenthesis), not where its name ends: the name of an enclosing call always
    # lies before the rewritten text
    rescan_test_ok = True
    if rescans:
        lcfg = CFG(fnode)
        for nd in lcfg.nodes:
            if nd.ast is not None and nd.kind == "stmt" and any(call_name(c) == "Worder" and c.args and isinstance(c.args[0], ast.Name) and c.args[0].id in spliced
                                                                for c in calls_in(nd.ast)) and any(y is nd.ast for y in ast.walk(lp)):
                tests = [t for t, pol in lcfg.guards(nd.id) if isinstance(t, ast.Compare) and any(isinstance(y, ast.Name) for y in ast.walk(t)) and any(y is t for y in ast.walk(lp))]
                if tests and not any(isinstance(y, ast.Name) and y.id in paren_ends for t in tests for y in ast.walk(t)):
                    rescan_test_ok = False
    sequential = backwards and bool(spliced) and cut_from <= spliced and bool(cut_from) and rescans and rescan_test_ok
    ok = not collected and sequential
    why = ("the replacements reach to the closing parenthesis and are collected as independent regions (`add_change(start, end_parens, ...)`)" if collected else
           "the occurrences are not rewritten from the last to the first" if not backwards else
           "the text handed to the call changer is not cut from the working text the replacements are spliced into" if not (spliced and cut_from and cut_from <= spliced) else
           "the closing parenthesis is not looked for again on the working text after an inner call was rewritten" if not rescans else
           "whether a call reaches into rewritten text is decided without looking at the end of the call (its closing parenthesis): the name of an enclosing call always ends "
           "before the rewritten text, so the scan is never redone and the outer call is cut at a stale offset")
    res.add("R06.17", "_ChangeCallsInModule.get_changed_module|nested-call-regions", ok, f.where,
            "call sites are rewritten from the last to the first on a working text: a call among the arguments of another call is rewritten first and the outer call takes its new text" if ok else
            f"get_changed_module: {why}.  The region of a call contains its arguments, and an argument can be another call of the changed function: for `f(f(1, 2), 3)` two overlapping "
            "replacements are written -- the inner call is not updated inside the outer one and the tail of the outer call is duplicated (a corrupted module, silently)", function=f.qualname)
