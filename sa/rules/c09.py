"""C09 -- computing changes is pure; performing touches only what was announced (R09.1-R09.16)."""
from __future__ import annotations

import ast
from typing import Dict, List, Optional, Set, Tuple

from .. import callgraph
from ..cfg import CFG
from ..core import AnalysisError, FuncInfo, call_name, calls_in, const_str, dotted, is_self_attr, norm, walk_local, param_names
from . import common

EXPLANATION = (
    "R09.1: no call-graph path (exact/CHA/attribute-typed resolution, arity-filtered by-name elsewhere; by-name edges "
    "into sinks whose names collide with container methods need positive receiver evidence) from any constructor or "
    "public method of a refactoring class to a function that mutates the disk or performs/undoes changes.  R09.2: "
    "file-system mutation primitives (os.*/shutil.*/open for writing/Path.write*/sqlite3.connect/subprocess) occur "
    "only in an explicit owner table, and fscommands mutators are invoked only from _ResourceOperations.  R09.3: per "
    "Change kind the resources operated on in do/undo are among the attributes returned by get_changed_resources.  "
    "R09.4: the previewed description diffs the attribute that do() writes.  R09.5: the resource of every Change "
    "constructed by a refactoring has provenance CALLER or PROJECT (flow-insensitive provenance lattice, sanitised by "
    "a dominating equality/membership test against a clean value), never a resource derived from an inferred object "
    "(which may live outside the project).  R09.6: explicit raises in the refactoring modules raise RopeError "
    "subclasses; no assert tests the analysed program's AST.  R09.7: every element that enters the project's cached file listing (what project-wide refactorings iterate) is dominated by a negative is_ignored test of that element.  R09.8: the 'inside this folder / inside the project root' tests compare "
    "paths with a prefix that ends in the separator.  R09.9: the analysis callback that runs inside every write absorbs ModuleSyntaxError.  Implicit internal exceptions are not decided."
    ' R09.10: a find_module result is tested for None before use in the refactoring modules.'
)
EXPLANATION += " R09.5: a resource found by resolving a name is sanitised by a project test only together with a not-ignored (or equal-to-the-caller's) edge on every path."
EXPLANATION += ' R09.11: a function that remembers its answer under a key reads, in the computation of the remembered value, nothing of its parameters that the key does not contain (followed into the helpers it calls).'
EXPLANATION += " R09.12: the resource of an object known only as an AbstractModule (builtin modules have none) is compared with None before use."
EXPLANATION += " R09.13: every while loop that steps an index forward through a text compares the index with the length in its test."
EXPLANATION += " R09.14: in the word finder an offset clamped to len(self.code) is never handed to a method that reads self.code at that offset."
EXPLANATION += " R09.15 (=R16.11): the writer hands the announced text to the encoder without an explicit encoding -- what reaches the disk is the previewed text in the codec it declares, on every path (no fallback codec in a handler)."
EXPLANATION += " R09.16: the path of a renamed module is made from a name that passed isidentifier() (no `..`, no separators)."
ASSUMPTIONS = [
    "callee resolution without a type checker: see DESIGN.md section 2 (E2)",
    "resources handed in by the caller (constructor/get_changes parameters) are the caller's responsibility (CALLER provenance is accepted)",
]

ENTRY_MODULE_PREFIXES = ("rope.refactor.",)
ENTRY_MODULES = {"rope.refactor", "rope.contrib.generate", "rope.contrib.findit", "rope.contrib.fixmodnames", "rope.contrib.finderrors",
                 "rope.contrib.codeassist"}
PERFORMER_NAMES = {"perform", "do"}

FS_CALLS = {"os.remove", "os.unlink", "os.mkdir", "os.makedirs", "os.rename", "os.replace", "os.rmdir", "os.removedirs", "os.renames",
            "os.truncate", "os.chmod", "os.symlink", "os.link", "sqlite3.connect", "tempfile.mkstemp", "tempfile.mkdtemp",
            "tempfile.NamedTemporaryFile"}
FS_MODULE_PREFIXES = ("shutil.", "subprocess.")
PATH_MUTATORS = {"write_text", "write_bytes", "unlink", "mkdir", "touch", "rmdir", "rename", "replace"}

# who may contain a file-system mutation primitive (qualname prefix -> reason)
FS_OWNERS = {
    "rope.base.fscommands.": "the pluggable file-system command classes: the one place that writes project files",
    "rope.base.project.Project.__init__": "creates the project root folder",
    "rope.base.project.Project._init_ropefolder": "creates the .ropeproject folder",
    "rope.base.project._DataFiles.write_data": "writes rope's own data files under .ropeproject",
    "rope.base.oi.doa.": "temporary files / child process of dynamic object analysis (outside the project tree)",
    "rope.base.oi.runmod.": "runs inside the analysed child process",
    "rope.contrib.autoimport.sqlite.": "the auto-import index database",
    "rope.base.prefs.": "reads configuration; runs the project's config.py",
    "rope.base.libutils.": "none expected",
}
FSCOMMAND_MUTATORS = {"write", "move", "remove", "create_file", "create_folder"}


def entry_functions(idx) -> List[FuncInfo]:
    out = []
    for q, c in sorted(idx.classes.items()):
        m = c.unit.modname
        if not (m.startswith(ENTRY_MODULE_PREFIXES) or m in ENTRY_MODULES):
            continue
        if "<locals>" in q:
            continue
        for name, f in sorted(c.methods.items()):
            if name in PERFORMER_NAMES:
                continue
            if name == "__init__" or not name.startswith("_"):
                out.append(f)
    return out


def perform_sinks(idx) -> Set[str]:
    s: Set[str] = set()
    for q, f in idx.functions.items():
        if f.cls is None:
            continue
        c = f.cls.qualname
        if c == "rope.base.project.Project" and f.name in ("do", "close", "sync"):
            s.add(q)
        if c == "rope.base.history.History" and f.name in ("do", "undo", "redo"):
            s.add(q)
        if idx.is_subclass(c, common.CHANGE_BASE) and f.name in ("do", "undo"):
            s.add(q)
        if c.startswith("rope.base.resources.") and f.name in ("write", "create", "move", "remove", "create_file", "create_folder"):
            s.add(q)
        if c == "rope.base.change._ResourceOperations" and f.name not in ("__init__", "_get_fscommands"):
            s.add(q)
        if c == "rope.base.project._DataFiles" and f.name in ("write_data", "write"):
            s.add(q)
        if c.startswith("rope.base.fscommands.") and f.name in FSCOMMAND_MUTATORS:
            s.add(q)
    return s


def fs_primitive_sites(idx) -> List[Tuple[FuncInfo, ast.Call, str]]:
    out = []
    for f in idx.functions.values():
        for c in calls_in(f.node):
            d = dotted(c.func)
            r = idx.resolve_dotted(f.unit.modname, d) if d else None
            if r and (r in FS_CALLS or r.startswith(FS_MODULE_PREFIXES)):
                out.append((f, c, r))
            elif call_name(c) == "open" and isinstance(c.func, ast.Name) or (r in ("io.open", "builtins.open", "os.open")):
                mode = None
                if len(c.args) > 1 and isinstance(c.args[1], ast.Constant):
                    mode = c.args[1].value
                for k in c.keywords:
                    if k.arg == "mode" and isinstance(k.value, ast.Constant):
                        mode = k.value.value
                if isinstance(mode, str) and any(ch in mode for ch in "wax+"):
                    out.append((f, c, f"open(mode={mode!r})"))
            elif isinstance(c.func, ast.Attribute) and c.func.attr in ("write_text", "write_bytes", "touch"):
                out.append((f, c, f"Path.{c.func.attr}"))
    return out


def _receiver_evidence(site, target: str, idx) -> bool:
    """by-name edge into a sink whose name collides with list/set/dict/file methods: keep it only with evidence
    that the receiver is the sink's kind of object."""
    node = site.node
    if not isinstance(node, ast.Call) or not isinstance(node.func, ast.Attribute):
        return True
    recv = node.func.value
    name = node.func.attr
    rs = ast.unparse(recv)
    tcls = target.rsplit(".", 1)[0]
    if tcls == "rope.base.change._ResourceOperations":
        return rs.endswith("_operations")
    if tcls.startswith("rope.base.fscommands."):
        return any(k in rs for k in ("fscommands", "normal_actions", "direct_commands", "commands"))
    if tcls.startswith("rope.base.resources.") and name in ("move", "write", "remove", "create"):
        # provably not a resource?
        f = idx.functions.get(site.caller)
        if f is not None and isinstance(recv, ast.Name):
            for n in walk_local(f.node):
                if isinstance(n, ast.Assign) and any(isinstance(t, ast.Name) and t.id == recv.id for t in n.targets):
                    v = n.value
                    if isinstance(v, (ast.List, ast.Set, ast.Dict, ast.ListComp, ast.SetComp, ast.DictComp, ast.Constant, ast.JoinedStr)) or \
                            (isinstance(v, ast.Call) and call_name(v) in ("list", "set", "dict", "sorted", "open", "OrderedSet", "deque")):
                        return False
        if (site.caller, name) in NOT_A_RESOURCE:
            return False
        # elements of one collection have one type: if another `.name(...)` call on an element of the same collection
        # cannot be a call of the sink (wrong number of arguments), none of them is
        if f is not None and not _same_collection_fits(f, recv, name, idx.functions.get(target)):
            return False
        return True
    return True


def _collection_of(fn, recv) -> Optional[str]:
    """name of the collection the receiver is an element of: `X[i]`, or the variable of `for v in X` / `for v in X[a:b]`"""
    if isinstance(recv, ast.Subscript) and isinstance(recv.value, ast.Name):
        return recv.value.id
    if isinstance(recv, ast.Name):
        for n in walk_local(fn.node):
            if isinstance(n, ast.For) and isinstance(n.target, ast.Name) and n.target.id == recv.id:
                it = n.iter
                if isinstance(it, ast.Subscript):
                    it = it.value
                if isinstance(it, ast.Name):
                    return it.id
    return None


def _same_collection_fits(fn, recv, name: str, target_fn) -> bool:
    if target_fn is None:
        return True
    coll = _collection_of(fn, recv)
    if coll is None:
        return True
    a = target_fn.node.args
    npos = len(a.posonlyargs + a.args) - 1
    nreq = npos - len(a.defaults)
    for c in calls_in(fn.node):
        if isinstance(c.func, ast.Attribute) and c.func.attr == name and _collection_of(fn, c.func.value) == coll:
            if any(isinstance(x, ast.Starred) for x in c.args) or any(k.arg is None for k in c.keywords):
                continue
            given = len(c.args) + len(c.keywords)
            if (len(c.args) > npos and a.vararg is None) or given < nreq:
                return False
    return True


# suppressions by symbol, each with its reason
NOT_A_RESOURCE: Dict[tuple, str] = {
    # (was: ModuleImports._move_imports / "move" -- now decided by _same_collection_fits: `imports[0].move(index, blank_lines)` on an
    #  element of the same list has two arguments, Resource.move takes one)
}


def _check_body(ctx, res) -> None:
    idx = ctx.idx
    cg = callgraph.get(ctx)
    sinks = perform_sinks(idx)
    prim = fs_primitive_sites(idx)
    prim_funcs = {f.qualname for f, _, _ in prim}
    all_sinks = sinks | prim_funcs
    res.analysed["callgraph"] = cg.stats()
    res.analysed["sink_functions"] = len(all_sinks)

    # ---- pruned edge relation
    edges: Dict[str, Set[str]] = {}
    for caller, sites in cg.sites.items():
        out = set()
        for s in sites:
            for t in s.targets:
                if s.how == "byname" and t in all_sinks and not _receiver_evidence(s, t, idx):
                    continue
                out.add(t)
        edges[caller] = out

    def reach(starts):
        from collections import deque

        prev = {s: None for s in starts}
        dq = deque(starts)
        while dq:
            a = dq.popleft()
            for b in sorted(edges.get(a, ())):
                if b not in prev:
                    prev[b] = a
                    dq.append(b)
        return prev

    # ---- R09.1
    entries = entry_functions(idx)
    res.floor("R09.1", "entry functions", len(entries), 300)
    res.analysed["entry_classes"] = len({f.cls.qualname for f in entries})
    n_bad = 0
    entry_q = {f.qualname for f in entries}
    failing = {f.qualname for f in entries if set(reach([f.qualname])) & all_sinks}
    for f in entries:
        prev = reach([f.qualname])
        hits = sorted(set(prev) & all_sinks)
        if hits:
            path = callgraph.CallGraph.path_to(prev, hits[0])
            if any(p in failing for p in path[1:]):
                res.analysed.setdefault("R09.1_derived", []).append(f"{f.qualname} (through {next(p for p in path[1:] if p in failing)})")
                continue
            n_bad += 1
            short = " -> ".join(p.replace("rope.", "") for p in path)
            res.fail("R09.1", f.qualname.split(".", 2)[-1], f.where,
                     f"computing changes can perform them: {short} (and {len(hits) - 1} more sink(s)): files are moved/rewritten on disk while "
                     "the caller only asked for the change object", path=path, sinks=hits[:8])
    res.analysed["R09.1_entries_reaching_sinks"] = n_bad
    res.ok("R09.1", "all-other-entries", "rope/refactor", f"{len(entries) - n_bad} entry functions have no call path to a disk mutator or performer")
    # positive controls: performers by contract must reach sinks (otherwise the graph lost its edges)
    for ctl in ("rope.contrib.changestack.ChangeStack.push", "rope.refactor.multiproject.perform",
                "rope.contrib.generate.create_module", "rope.base.project.Project.do"):
        if ctl not in idx.functions:
            continue
        if not (set(reach([ctl])) & all_sinks):
            raise AnalysisError(f"positive control {ctl} no longer reaches any sink: call graph is missing edges")
    _fixture_control(ctx, res)

    # ---- R09.2
    n2 = 0
    for f, c, what in sorted(prim, key=lambda t: (t[0].qualname, t[1].lineno)):
        n2 += 1
        owner = next((k for k in FS_OWNERS if f.qualname.startswith(k)), None)
        res.add("R09.2", f"{f.qualname.split('.', 2)[-1]}|{what}", owner is not None, f"{f.unit.rel}:{c.lineno}",
                f"file-system primitive {what} inside its owner ({FS_OWNERS.get(owner, '')})" if owner else
                f"{f.qualname} calls the file-system primitive {what} directly: disk mutation outside fscommands / the documented owners "
                "bypasses Change objects, history, observers and the project's ignore rules")
    res.floor("R09.2", "file-system primitive call sites", n2, 9)
    for caller, sites in sorted(cg.sites.items()):
        for s in sites:
            n = s.node
            if isinstance(n, ast.Call) and isinstance(n.func, ast.Attribute) and n.func.attr in FSCOMMAND_MUTATORS:
                rs = ast.unparse(n.func.value)
                if ("fscommands" in rs or rs in ("normal_actions", "direct_commands")) and not caller.startswith(
                        ("rope.base.change._ResourceOperations", "rope.base.fscommands.")):
                    res.fail("R09.2", f"{caller.split('.', 2)[-1]}|fscommands.{n.func.attr}", f"{idx.functions[caller].unit.rel}:{n.lineno}",
                             f"{caller} invokes the fscommands mutator {n.func.attr}() directly: only _ResourceOperations may (it is what notifies observers)")

    # ---- R09.3 / R09.4
    for c in common.change_classes(idx):
        gcr = c.methods.get("get_changed_resources")
        if gcr is None or c is common.composite_change(idx):
            continue
        announced = {x.attr for r in walk_local(gcr.node) if isinstance(r, ast.Return) and r.value is not None
                     for x in ast.walk(r.value) if is_self_attr(x)}
        operated: Set[str] = set()
        for mname in ("do", "undo"):
            m = c.methods.get(mname)
            if m:
                for call in calls_in(m.node):
                    if isinstance(call.func, ast.Attribute) and is_self_attr(call.func.value, "_operations"):
                        for a in call.args:
                            if is_self_attr(a):
                                operated.add(a.attr)
        operated -= {"new_contents", "old_contents"}
        extra = operated - announced
        res.add("R09.3", c.name, not extra, gcr.where,
                f"operated resources {sorted(operated)} are announced by get_changed_resources {sorted(announced)}" if not extra else
                f"{c.name}.do/undo operate on self.{sorted(extra)} which get_changed_resources() does not list: performing the change touches "
                "a resource that was not announced")
    comp = common.composite_change(idx)
    gcr = comp.methods.get("get_changed_resources")
    # some iteration over the children -- a for loop, a comprehension / generator (also as the argument of chain / union /
    # update), map() -- asks each child for its resources
    ok = False
    if gcr is not None:
        for l in ast.walk(gcr.node):
            tgt = None
            if isinstance(l, (ast.For, ast.comprehension)) and isinstance(l.target, ast.Name):
                tgt = l.target.id
                scope = l if isinstance(l, ast.For) else gcr.node
                if any(isinstance(x, ast.Call) and call_name(x) == "get_changed_resources" and isinstance(x.func, ast.Attribute)
                       and isinstance(x.func.value, ast.Name) and x.func.value.id == tgt for x in ast.walk(scope)):
                    ok = True
            if isinstance(l, ast.Call) and call_name(l) == "map" and l.args and isinstance(l.args[0], ast.Attribute) and l.args[0].attr == "get_changed_resources":
                ok = True
    res.add("R09.3", comp.name, ok, (gcr or comp).where,
            "the composite announces the union of its children's resources" if ok else
            "the composite change does not collect get_changed_resources() of all sub-changes")
    cc = idx.need_class("rope.base.change.ChangeContents")
    desc, do = cc.methods.get("get_description"), cc.methods.get("do")
    written = {a.attr for call in calls_in(do.node) if call_name(call) == "write_file" for a in call.args[1:] if is_self_attr(a)}
    described = {x.attr for x in ast.walk(desc.node) if is_self_attr(x)}
    ok = bool(written) and written <= described
    res.add("R09.4", "ChangeContents.get_description", ok, desc.where,
            f"the preview diffs self.{sorted(written)}, the attribute do() writes" if ok else
            f"ChangeContents.get_description does not use self.{sorted(written - described)}, which is what do() writes: the preview differs from what is written")

    _provenance(ctx, res)
    _typed_refusals(ctx, res)
    common.file_list_filter_rule(ctx, res, "R09.7")
    common.prefix_boundary_rule(ctx, res, "R09.8", ["rope.base.resources.Folder.contains", "rope.base.libutils.relative"])
    common.soa_observer_rule(ctx, res, "R09.9")
    _optional_module_rule(ctx, res)


def _fixture_control(ctx, res) -> None:
    """Tiny positive example that must match on every run: a refactoring-shaped class whose get_changes performs."""
    import os
    from ..core import Index

    fx = os.path.join(os.path.dirname(os.path.dirname(os.path.abspath(__file__))), "fixtures", "c09_fixture")
    if not os.path.isdir(os.path.join(fx, "rope")):
        raise AnalysisError("fixture sa/fixtures/c09_fixture missing")
    fidx = Index(fx)
    fcg = callgraph.CallGraph(fidx)
    prims = {f.qualname for f, _, _ in fs_primitive_sites(fidx)}
    prev = fcg.reach(["rope.refactor.bad.Bad.get_changes"])
    hit = set(prev) & (prims | {q for q in fidx.functions if q.endswith(".do")})
    if not hit:
        raise AnalysisError("positive fixture: effect reachability no longer detects a performing get_changes")
    res.ok("R09.1", "fixture-control", "sa/fixtures/c09_fixture", f"positive fixture detected ({sorted(hit)[0]})")


# --------------------------------------------------------------------------- R09.5 provenance

CALLER, PROJECT, DERIVED, UNKNOWN = "CALLER", "PROJECT", "DERIVED", "UNKNOWN"
PROJECT_CALLS = {"get_python_files", "get_files", "get_file", "get_folder", "get_resource", "get_child", "get_children",
                 "path_to_resource", "create_file", "create_folder", "find_module", "get_source_folders", "get_module_folder"}
DERIVED_CALLS = {"get_resource", "get_module", "get_definition_location", "get_object", "get_pymodule", "get_scope"}
CHANGE_CTORS = {"ChangeContents", "MoveResource", "CreateFolder", "CreateFile", "CreateResource", "RemoveResource"}


class _Prov:
    def __init__(self, idx, cls, fn: FuncInfo, depth: int = 0):
        self.idx, self.cls, self.fn, self.depth = idx, cls, fn, depth
        self.params = param_names(fn.node)
        self.public = fn.name == "__init__" or not fn.name.startswith("_")
        self.static = any(d.split(".")[-1] == "staticmethod" for d in fn.decorator_names())  # no `self` in the parameter list

    def of(self, e: ast.AST, seen=None) -> Set[str]:
        seen = seen or set()
        if isinstance(e, ast.Name):
            if ("n", e.id) in seen:
                return set()
            seen = seen | {("n", e.id)}
            out: Set[str] = set()
            if e.id in self.params and e.id not in ("self", "cls"):
                out |= self._param(e.id)
            for n in walk_local(self.fn.node):
                if isinstance(n, ast.Assign):
                    for t in n.targets:
                        if isinstance(t, ast.Name) and t.id == e.id:
                            out |= self.of(n.value, seen)
                        elif isinstance(t, (ast.Tuple, ast.List)) and any(isinstance(x, ast.Name) and x.id == e.id for x in t.elts):
                            out |= self.of(n.value, seen)
                elif isinstance(n, (ast.For, ast.comprehension)):
                    if any(isinstance(x, ast.Name) and x.id == e.id for x in ast.walk(n.target)):
                        out |= self.of(n.iter, seen)
                elif isinstance(n, ast.Call) and isinstance(n.func, ast.Attribute) and n.func.attr in ("append", "extend", "add", "insert") \
                        and isinstance(n.func.value, ast.Name) and n.func.value.id == e.id:
                    for a in n.args:
                        out |= self.of(a, seen)
                elif isinstance(n, ast.With):
                    pass
            return out or {UNKNOWN}
        if is_self_attr(e):
            if ("a", e.attr) in seen or self.cls is None:
                return {UNKNOWN} if self.cls is None else set()
            seen = seen | {("a", e.attr)}
            out = set()
            for q in self.idx.mro(self.cls.qualname):
                c = self.idx.classes.get(q)
                if not c:
                    continue
                for m in c.methods.values():
                    for n in walk_local(m.node):
                        if isinstance(n, ast.Assign) and any(is_self_attr(t, e.attr) for t in n.targets):
                            # names are per function: only the attribute markers carry over
                            out |= _Prov(self.idx, self.cls, m, self.depth).of(n.value, {x for x in seen if x[0] == "a"})
            return out or {UNKNOWN}
        if isinstance(e, (ast.List, ast.Tuple, ast.Set)):
            out = set()
            for x in e.elts:
                out |= self.of(x, seen)
            return out or {PROJECT}
        if isinstance(e, ast.IfExp):
            return self.of(e.body, seen) | self.of(e.orelse, seen)
        if isinstance(e, ast.BoolOp):
            out = set()
            for x in e.values:
                out |= self.of(x, seen)
            return out
        if isinstance(e, ast.Subscript):
            return self.of(e.value, seen)
        if isinstance(e, ast.Attribute):
            if e.attr in ("parent", "resource") and not is_self_attr(e):
                base = self.of(e.value, seen)
                return base if e.attr == "parent" else ({DERIVED} if base - {CALLER, PROJECT} else base)
            return self.of(e.value, seen)
        if isinstance(e, ast.Call):
            name = call_name(e)
            if name in ("list", "sorted", "set", "tuple", "reversed", "filter") and e.args:
                return self.of(e.args[-1], seen)
            if isinstance(e.func, ast.Attribute):
                recv = ast.unparse(e.func.value)
                if name in PROJECT_CALLS and ("project" in recv or "folder" in recv or "parent" in recv or "root" in recv or "libutils" in recv
                                              or recv in ("self", "resource", "dest", "package")):
                    if name == "get_resource" and "project" not in recv:
                        return {DERIVED}
                    return {PROJECT}
                if name in DERIVED_CALLS:
                    return {DERIVED}
                if name == "get_python_files":
                    return {PROJECT}
            if name == "path_to_resource":
                return {PROJECT}
            # helper of the class returning a resource
            if is_self_attr(e.func) and self.cls is not None and self.depth < 2:
                m = self.idx.find_method(self.cls.qualname, e.func.attr)
                if m:
                    out = set()
                    for r in walk_local(m.node):
                        if isinstance(r, ast.Return) and r.value is not None:
                            out |= _Prov(self.idx, self.cls, m, self.depth + 1).of(r.value)
                    if out:
                        return out
            return {UNKNOWN}
        if isinstance(e, ast.Constant):
            return set()
        return {UNKNOWN}

    def _param(self, name: str) -> Set[str]:
        if self.public or self.cls is None or self.depth >= 2:
            return {CALLER}
        i = self.params.index(name)
        out: Set[str] = set()
        found = False
        for q in self.idx.mro(self.cls.qualname) + self.idx.subclasses(self.cls.qualname):
            c = self.idx.classes.get(q)
            if not c:
                continue
            for m in c.methods.values():
                for call in calls_in(m.node):
                    if is_self_attr(call.func, self.fn.name):
                        found = True
                        arg = None
                        j = i if self.static else i - 1
                        if 0 <= j < len(call.args):
                            arg = call.args[j]
                        for k in call.keywords:
                            if k.arg == name:
                                arg = k.value
                        if arg is not None:
                            out |= _Prov(self.idx, c, m, self.depth + 1).of(arg)
        return out if found and out else {CALLER}


def _provenance(ctx, res) -> None:
    idx = ctx.idx
    n = 0
    for f in sorted(idx.functions.values(), key=lambda f: f.qualname):
        m = f.unit.modname
        if not (m.startswith("rope.refactor.") or m in ("rope.refactor", "rope.contrib.generate")):
            continue
        sites = [c for c in calls_in(f.node) if call_name(c) in CHANGE_CTORS and c.args]
        if not sites:
            continue
        cfg = CFG(f.node)
        cls = f.cls
        if cls is None and f.parent is not None and f.parent.cls is not None:
            cls = f.parent.cls
        pv = _Prov(idx, cls, f)
        ordinal = {}
        for c in sites:
            n += 1
            arg = c.args[0]
            labels = pv.of(arg)
            node = (cfg.node_containing(c) or [None])[0]
            sanitised = False
            if node is not None and DERIVED in labels:
                sanitised = _site_ok(idx, cls, f, cfg, node, arg, pv)
                if not sanitised and cls is not None and f.name.startswith("_") and f.name != "__init__" and isinstance(arg, ast.Name) \
                        and arg.id in param_names(f.node):
                    i = param_names(f.node).index(arg.id) - (0 if any(d.split(".")[-1] == "staticmethod" for d in f.decorator_names()) else 1)
                    sites2 = []
                    for q in idx.mro(cls.qualname) + idx.subclasses(cls.qualname):
                        c2 = idx.classes.get(q)
                        if not c2:
                            continue
                        for m2 in c2.methods.values():
                            for call in calls_in(m2.node):
                                if is_self_attr(call.func, f.name) and i < len(call.args):
                                    actual = call.args[i]
                                    pv2 = _Prov(idx, c2, m2)
                                    if not (pv2.of(actual) - {CALLER, PROJECT}):
                                        sites2.append(True)
                                        continue
                                    cfg2 = CFG(m2.node)
                                    n2 = (cfg2.node_containing(call) or [None])[0]
                                    sites2.append(n2 is not None and _site_ok(idx, c2, m2, cfg2, n2, actual, pv2))
                    sanitised = bool(sites2) and all(sites2)
                if not sanitised and cls is not None and f.name.startswith("_") and f.name != "__init__" and is_self_attr(arg):
                    # private helper: every call site in the class must be guarded
                    sites2 = []
                    for q in idx.mro(cls.qualname) + idx.subclasses(cls.qualname):
                        c2 = idx.classes.get(q)
                        if not c2:
                            continue
                        for m2 in c2.methods.values():
                            for call in calls_in(m2.node):
                                if is_self_attr(call.func, f.name):
                                    cfg2 = CFG(m2.node)
                                    n2 = (cfg2.node_containing(call) or [None])[0]
                                    sites2.append(n2 is not None and _site_ok(idx, c2, m2, cfg2, n2, arg, _Prov(idx, c2, m2)))
                    sanitised = bool(sites2) and all(sites2)
            ordinal[call_name(c)] = ordinal.get(call_name(c), 0) + 1
            key = f"{f.qualname.split('.', 2)[-1]}|{call_name(c)}#{ordinal[call_name(c)]}"
            where = f"{f.unit.rel}:{c.lineno}"
            if sanitised:
                res.ok("R09.5", key, where, f"target provenance {sorted(labels)} is sanitised by a dominating equality/membership/project test", labels=sorted(labels))
            elif DERIVED in labels and not sanitised:
                res.fail("R09.5", key, where,
                         f"the target of this {call_name(c)} has provenance {sorted(labels)}: it is (or may be) the resource of an inferred object "
                         "(definition location / get_module().get_resource()), which can be a file outside the project (python_path, site-packages): "
                         "the change set then lists and modifies an out-of-project file", labels=sorted(labels))
            elif labels - {CALLER, PROJECT, DERIVED}:
                res.undecided("R09.5", key, where, f"provenance not resolved: {sorted(labels)}", labels=sorted(labels))
            else:
                res.ok("R09.5", key, where, f"target provenance {sorted(labels) or ['PROJECT']}" + (" (sanitised by a dominating test)" if sanitised else ""),
                       labels=sorted(labels))
    res.floor("R09.5", "change construction sites", n, 30)


def _project_checked(fn_node, expr_norm: str, pv=None) -> bool:
    """`if <expr>.project != <project>: raise ...` (or `== ...` guarding the rest) on the straight-line path of fn:
    after it, <expr> is known to belong to this project."""
    cfg = CFG(fn_node)
    for n in cfg.nodes:
        if n.kind != "test" or not isinstance(n.ast, ast.Compare) or len(n.ast.ops) != 1:
            continue
        sides = [n.ast.left, n.ast.comparators[0]]
        if not any(isinstance(x, ast.Attribute) and x.attr == "project" and norm(x.value) == expr_norm for x in sides):
            continue
        if not any((isinstance(x, ast.Name) and x.id == "project") or is_self_attr(x, "project") for x in sides):
            continue
        bad_label = "true" if isinstance(n.ast.ops[0], ast.NotEq) else "false" if isinstance(n.ast.ops[0], ast.Eq) else None
        if bad_label is None:
            continue
        for b, lab in cfg.succ[n.id]:
            if lab == bad_label:
                # the foreign-project edge must only lead to raising
                reach = cfg.reachable(b)
                if cfg.exit.id not in reach:
                    return _ignored_refused(cfg, expr_norm) or _not_ignored_on_every_path(cfg, cfg.exit.id, expr_norm, pv)
    return False


def _ignored_refused(cfg, expr_norm: str) -> bool:
    """Belonging to the project is not enough for a resource that was found by RESOLVING a name: import resolution does not
    consult the ignore rules, so the module can be an ignored file -- and every symlink is ignored, whatever it points to.
    Somewhere in the function `is_ignored(<expr>)` is tested and its true edge only leads to raising."""
    for n in cfg.nodes:
        if n.kind == "test" and isinstance(n.ast, ast.Call) and call_name(n.ast) == "is_ignored" and any(norm(a) == expr_norm for a in n.ast.args):
            for b, lab in cfg.succ[n.id]:
                if lab == "true" and cfg.exit.id not in cfg.reachable(b):
                    return True
    return False


def _sanitised(idx, cls, f, cfg, node, arg, pv) -> bool:
    """a dominating test establishes that `arg` equals / is a member of a clean (CALLER/PROJECT) value, or that it
    belongs to this project"""
    clean = lambda e: not (pv.of(e) - {CALLER, PROJECT})
    for t, pol in cfg.guards(node.id):
        if not pol:
            continue
        if isinstance(t, ast.Compare) and len(t.ops) == 1:
            l, r = t.left, t.comparators[0]
            if isinstance(t.ops[0], ast.Eq):
                for a, b in ((l, r), (r, l)):
                    if norm(a) == norm(arg) and clean(b):
                        return True
                    # self.project == R.project
                    if isinstance(a, ast.Attribute) and a.attr == "project" and norm(a.value) == norm(arg) and is_self_attr(b, "project"):
                        return True
            if isinstance(t.ops[0], ast.In) and norm(l) == norm(arg) and clean(r):
                return True
        if isinstance(t, ast.Call) and is_self_attr(t.func) and cls is not None:
            h = idx.find_method(cls.qualname, t.func.attr)
            if h is not None and any(norm(a) == norm(arg) for a in t.args):
                hp = h.call_params()  # (static methods have no `self` to drop)
                i = next(i for i, a in enumerate(t.args) if norm(a) == norm(arg))
                if i < len(hp):
                    subj = hp[i]
                    rets = [r for r in walk_local(h.node) if isinstance(r, ast.Return) and r.value is not None
                            and not (isinstance(r.value, ast.Constant) and not r.value.value)]
                    def membership(v):
                        return isinstance(v, ast.Compare) and isinstance(v.ops[0], ast.In) and isinstance(v.comparators[0], ast.Name) \
                            and v.comparators[0].id in hp and any(isinstance(x, ast.Name) and x.id == subj for x in ast.walk(v.left))
                    if rets and all(membership(r.value) for r in rets):
                        other = [t.args[hp.index(r.value.comparators[0].id)] for r in rets if hp.index(r.value.comparators[0].id) < len(t.args)]
                        if other and all(clean(o) for o in other):
                            return True
    return False


def _not_ignored_on_every_path(cfg, target: int, expr_norm: str, pv=None) -> bool:
    """every path from the entry to `target` passes the false edge of an `is_ignored(<expr>)` test -- or an edge on which
    <expr> EQUALS a value the caller supplied (the caller may point at an ignored file; what must not happen is that a
    resource found by resolving a name is one)"""
    avoid = []
    for n in cfg.nodes:
        if n.kind != "test":
            continue
        t = n.ast
        if isinstance(t, ast.Call) and call_name(t) == "is_ignored" and any(norm(a) == expr_norm for a in t.args):
            avoid += [(n.id, b, lab) for b, lab in cfg.succ[n.id] if lab == "false"]
        if pv is not None and isinstance(t, ast.Compare) and len(t.ops) == 1 and isinstance(t.ops[0], (ast.Eq, ast.NotEq)):
            for a, b_ in ((t.left, t.comparators[0]), (t.comparators[0], t.left)):
                if norm(a) == expr_norm and not (pv.of(b_) - {CALLER, PROJECT}):
                    eq_lab = "true" if isinstance(t.ops[0], ast.Eq) else "false"
                    avoid += [(n.id, b, lab) for b, lab in cfg.succ[n.id] if lab == eq_lab]
    if not avoid:
        return False
    return target not in cfg.reachable(cfg.entry.id, avoid_edges=avoid)


def _project_guard(cfg, node_id, attr_norm: str, pv=None) -> bool:
    """node is only reached when <attr>.project == <this project> (Eq true edge / NotEq false edge), or under the
    `_is_local(...)` shortcut (a function-local variable is defined in the module the caller pointed at)"""
    for t, pol in cfg.guards(node_id):
        if isinstance(t, ast.Compare) and len(t.ops) == 1:
            sides = [t.left, t.comparators[0]]
            if any(isinstance(x, ast.Attribute) and x.attr == "project" and norm(x.value) == attr_norm for x in sides) and \
                    any((isinstance(x, ast.Name) and x.id == "project") or is_self_attr(x, "project") for x in sides):
                if (isinstance(t.ops[0], ast.Eq) and pol) or (isinstance(t.ops[0], ast.NotEq) and not pol):
                    # ... and not ignored (see _ignored_refused)
                    return _not_ignored_on_every_path(cfg, node_id, attr_norm, pv)
        if isinstance(t, ast.Call) and call_name(t) == "_is_local" and pol:
            return True
    return False


def _derived_sources_checked(idx, cls, f, arg) -> bool:
    """Every occurrence through which a DERIVED self.<attr> can flow into `arg` (list literal element, append argument,
    plain assignment) is guarded by a project-membership test, or the attribute is checked where it is assigned
    (constructor-level sanitising: `if self.x.project != project: raise`)."""
    if cls is None:
        return False
    pv = _Prov(idx, cls, f)
    cfg = CFG(f.node)
    occurrences = []  # (attr, ast node of the occurrence)

    def sources(e, seen):
        if is_self_attr(e):
            if DERIVED in pv.of(e):
                occurrences.append((e.attr, e))
            return
        if isinstance(e, ast.Name):
            if e.id in seen:
                return
            seen = seen | {e.id}
            for n in walk_local(f.node):
                if isinstance(n, ast.Assign) and any(isinstance(t, ast.Name) and t.id == e.id for t in n.targets):
                    sources(n.value, seen)
                elif isinstance(n, (ast.For, ast.comprehension)) and any(isinstance(x, ast.Name) and x.id == e.id for x in ast.walk(n.target)):
                    sources(n.iter, seen)
                elif isinstance(n, ast.Call) and isinstance(n.func, ast.Attribute) and n.func.attr in ("append", "extend", "add") \
                        and isinstance(n.func.value, ast.Name) and n.func.value.id == e.id:
                    for a in n.args:
                        sources(a, seen)
            return
        if isinstance(e, ast.Compare):
            return
        for ch in ast.iter_child_nodes(e):
            if isinstance(ch, ast.expr):
                sources(ch, seen)

    sources(arg, set())
    if not occurrences:
        return False
    for attr, occ in occurrences:
        key = norm(ast.parse(f"self.{attr}", mode="eval").body)
        nodes = cfg.node_containing(occ)
        ok = bool(nodes) and all(_project_guard(cfg, n.id, key, pv) for n in nodes)
        if not ok and occ is arg:
            # direct use of the attribute: accept if every flow INTO a value it is compared with is guarded (handled by the
            # Eq sanitiser) -- here only constructor-level sanitising can help
            ok = False
        if not ok:
            for q in idx.mro(cls.qualname):
                c = idx.classes.get(q)
                if not c:
                    continue
                for m in c.methods.values():
                    assigns = any(isinstance(n, ast.Assign) and any(is_self_attr(t, attr) for t in n.targets) for n in walk_local(m.node))
                    if assigns and _project_checked(m.node, key, _Prov(idx, c, m)):
                        ok = True
        if not ok and nodes:
            # the refusals may stand in a private method of the class that only checks and raises, called on every path
            # to the occurrence: `self._check_definition_removable()` ... `resources.append(self.resource)`
            def refusing_call(nd_):
                st = nd_.ast
                if nd_.kind != "stmt" or not (isinstance(st, ast.Expr) and isinstance(st.value, ast.Call) and is_self_attr(st.value.func) and not st.value.args):
                    return False
                h = idx.find_method(cls.qualname, st.value.func.attr)
                return h is not None and _project_checked(h.node, key, _Prov(idx, cls, h))
            ok = all(cfg.dominated_by(n.id, refusing_call) for n in nodes)
        if not ok:
            return False
    return True


def _site_ok(idx, cls, f, cfg, node, arg, pv) -> bool:
    """direct sanitiser, or an equality with a value all of whose DERIVED sources are project-checked"""
    if _sanitised(idx, cls, f, cfg, node, arg, pv) or _derived_sources_checked(idx, cls, f, arg):
        return True
    for t, pol in cfg.guards(node.id):
        if pol and isinstance(t, ast.Compare) and len(t.ops) == 1 and isinstance(t.ops[0], ast.Eq):
            for a, b in ((t.left, t.comparators[0]), (t.comparators[0], t.left)):
                if norm(a) == norm(arg):
                    labels = pv.of(b)
                    if not (labels - {CALLER, PROJECT, DERIVED}) and _derived_sources_checked(idx, cls, f, b):
                        return True
                    # ... compared with a PARAMETER of a private method: what every caller in the class hands in
                    if isinstance(b, ast.Name) and cls is not None and f.name.startswith("_") and b.id in f.call_params() \
                            and not (labels - {CALLER, PROJECT, DERIVED}):
                        i = f.call_params().index(b.id)
                        sites2 = []
                        for q in idx.mro(cls.qualname) + idx.subclasses(cls.qualname):
                            c2 = idx.classes.get(q)
                            for m2 in (c2.methods.values() if c2 else []):
                                for call in calls_in(m2.node):
                                    if is_self_attr(call.func, f.name) and i < len(call.args):
                                        actual = call.args[i]
                                        pv2 = _Prov(idx, c2, m2)
                                        sites2.append(not (pv2.of(actual) - {CALLER, PROJECT}) or _derived_sources_checked(idx, c2, m2, actual))
                        if sites2 and all(sites2):
                            return True
    return False


# --------------------------------------------------------------------------- R09.6

def _typed_refusals(ctx, res) -> None:
    idx = ctx.idx
    rope_error = "rope.base.exceptions.RopeError"
    idx.need_class(rope_error)
    n = 0
    bad = 0
    for f in sorted(idx.functions.values(), key=lambda f: f.qualname):
        if not (f.unit.modname.startswith("rope.refactor.") or f.unit.modname == "rope.refactor"):
            continue
        for r in walk_local(f.node):
            if isinstance(r, ast.Raise) and r.exc is not None:
                n += 1
                e = r.exc.func if isinstance(r.exc, ast.Call) else r.exc
                q = idx.resolve(f.unit.modname, e)
                name = dotted(e) or "?"
                if q in idx.classes and idx.is_subclass(q, rope_error):
                    continue
                # `raise self._not_global_error()` / `raise _unsupported_move_error()`: a helper that BUILDS the refusal -- every value it
                # returns is an instance of one of the library's error types
                if isinstance(r.exc, ast.Call):
                    hfn = None
                    if is_self_attr(r.exc.func) and f.cls is not None:
                        hfn = idx.find_method(f.cls.qualname, r.exc.func.attr)
                    elif q in idx.functions:
                        hfn = idx.functions[q]
                    if hfn is not None:
                        rets = [x.value for x in walk_local(hfn.node) if isinstance(x, ast.Return) and x.value is not None]
                        built = [idx.resolve(hfn.unit.modname, v.func) if isinstance(v, ast.Call) else None for v in rets]
                        if rets and all(b in idx.classes and idx.is_subclass(b, rope_error) for b in built):
                            continue
                if name.split(".")[-1] in ("NotImplementedError",):
                    continue  # abstract hook
                if isinstance(e, ast.Name) and not (q in idx.classes) and e.id[0].islower():
                    continue  # re-raise of a caught exception variable
                # a ValueError (etc.) every path of which is caught in the same module
                caught = _caught_in_module(idx, f, name.split(".")[-1], r)
                if caught:
                    continue
                bad += 1
                res.fail("R09.6", f"{f.qualname.split('.', 2)[-1]}|raise {name}", f"{f.unit.rel}:{r.lineno}",
                         f"{f.qualname} refuses with {name}, which is not one of the library's own error types (RopeError hierarchy): callers that "
                         "handle rope's refusals see an internal exception")
    for f in sorted(idx.functions.values(), key=lambda f: f.qualname):
        if not (f.unit.modname.startswith("rope.refactor.") or f.unit.modname == "rope.refactor"):
            continue
        if f.unit.modname == "rope.refactor.functionutils":
            continue  # R06.2
        for a in walk_local(f.node):
            if isinstance(a, ast.Assert):
                n += 1
                t = ast.unparse(a.test)
                # asserts about the analysed program: test mentions a value derived from an AST node of user code
                user = _mentions_user_ast(f, a)
                if user:
                    bad += 1
                    res.fail("R09.6", f"{f.qualname.split('.', 2)[-1]}|assert {t[:40]}", f"{f.unit.rel}:{a.lineno}",
                             f"`assert {t[:60]}` tests the shape of the analysed program ({user}): valid but unusual code makes the refactoring raise "
                             "AssertionError instead of a rope error")
    res.ok("R09.6", "all-other-refusals", "rope/refactor", f"{n - bad} explicit raises/asserts in the refactoring modules are typed or internal")
    res.floor("R09.6", "explicit raises and asserts", n, 25)


def _caught_in_module(idx, f: FuncInfo, exc_name: str, raise_node=None) -> bool:
    """every call of f inside its module (that can reach the raise: if the raise is guarded by the truth of a
    defaulted parameter, only calls passing that parameter) lies in a try with a handler naming exc_name"""
    u = f.unit
    sites = []
    gate = None
    if raise_node is not None:
        cfg = CFG(f.node)
        rn = cfg.node_of_stmt(raise_node)
        if rn is not None:
            ps = param_names(f.node)
            for t, pol in cfg.guards(rn.id):
                if pol and isinstance(t, ast.Name) and t.id in ps:
                    gate = t.id
    for g in idx.functions.values():
        if g.unit is not u:
            continue
        for c in calls_in(g.node):
            if call_name(c) == f.name:
                if gate is not None:
                    gi = param_names(f.node).index(gate) - (1 if f.cls is not None else 0)
                    passed = gi < len(c.args) or any(k.arg == gate for k in c.keywords)
                    if not passed:
                        continue
                handled = False
                for t in walk_local(g.node):
                    if isinstance(t, ast.Try) and any(x is c for s in t.body for x in ast.walk(s)):
                        for h in t.handlers:
                            if h.type is not None and exc_name in ast.unparse(h.type):
                                handled = True
                sites.append(handled)
    return bool(sites) and all(sites)


def _mentions_user_ast(f: FuncInfo, a: ast.Assert) -> Optional[str]:
    """heuristic with positive evidence only: the assert's subject is a parameter/loop variable named like an AST node
    or pyname of the analysed program AND the test is an isinstance / 'False' on such a path."""
    t = a.test
    if isinstance(t, ast.Constant) and t.value is False:
        # `assert False` in the else-branch of isinstance tests on a node parameter against ast classes:
        # flagged when the tested classes do not cover every assignment-target constructor of the grammar
        params = set(param_names(f.node))
        tested = set()
        for x in walk_local(f.node):
            if isinstance(x, ast.Call) and call_name(x) == "isinstance" and len(x.args) == 2 and isinstance(x.args[0], ast.Name) \
                    and x.args[0].id in params:
                k = x.args[1]
                for e in (k.elts if isinstance(k, ast.Tuple) else [k]):
                    d = dotted(e) or ""
                    if d.startswith("ast."):
                        tested.add(d[4:])
        targets = {"Name", "Tuple", "List", "Starred", "Attribute", "Subscript"}
        if tested and tested < targets:
            return f"isinstance chain covers {sorted(tested)} but a target may also be {sorted(targets - tested)}"
        return None
    if isinstance(t, ast.Call) and call_name(t) == "isinstance" and len(t.args) == 2:
        subj = t.args[0]
        kinds = ast.unparse(t.args[1])
        if isinstance(subj, ast.Name) and ("AssignedName" in kinds or "ast." in kinds and subj.id in ("node", "name", "child")):
            return f"isinstance({subj.id}, {kinds})"
    return None


def _optional_module_rule(ctx, res) -> None:
    """R09.10: `find_module` answers None for a module it cannot find.  In the refactoring modules a variable bound to its
    result is dereferenced only where a None test of that variable has been passed (edge dominance): otherwise a request
    naming a non-existent module ends in AttributeError -- an internal exception instead of a refusal."""
    from ..cfg import CFG

    idx = ctx.idx
    n = 0
    for f in sorted(idx.functions.values(), key=lambda f: f.qualname):
        if not (f.unit.modname.startswith("rope.refactor.") or f.unit.modname.startswith("rope.contrib.autoimport")):
            continue
        vars_ = {}
        for x in walk_local(f.node):
            if isinstance(x, ast.Assign) and isinstance(x.value, ast.Call) and call_name(x.value) in ("find_module", "find_relative_module") \
                    and len(x.targets) == 1 and isinstance(x.targets[0], ast.Name):
                vars_[x.targets[0].id] = x
        if not vars_:
            continue
        cfg = CFG(f.node)

        def tested(t, pol, v) -> bool:
            if isinstance(t, ast.Compare) and len(t.ops) == 1 and isinstance(t.left, ast.Name) and t.left.id == v \
                    and isinstance(t.comparators[0], ast.Constant) and t.comparators[0].value is None:
                return (isinstance(t.ops[0], ast.Is) and not pol) or (isinstance(t.ops[0], ast.IsNot) and pol)
            if isinstance(t, ast.Name) and t.id == v:
                return pol
            return False

        for v, asg in sorted(vars_.items()):
            uses = []
            for nd in cfg.nodes:
                if nd.ast is None or nd.kind not in ("stmt", "test") or nd.ast is asg:
                    continue
                for y in ast.walk(nd.ast):
                    if isinstance(y, ast.Attribute) and isinstance(y.value, ast.Name) and y.value.id == v and isinstance(y.ctx, ast.Load):
                        uses.append((nd, y))
            if not uses:
                continue
            n += 1
            bad = [(nd, y) for nd, y in uses if not any(tested(t, pol, v) for t, pol in cfg.guards(nd.id))]
            # a use inside the assignment's own later re-binding etc. is not excluded: keep it simple and strict
            res.add("R09.10", f"{f.qualname.split('.', 2)[-1]}|{v}", not bad, f"{f.unit.rel}:{(bad[0][1] if bad else asg).lineno}",
                    f"`{v}` (a find_module result) is dereferenced only after a None test" if not bad else
                    f"`{v}` holds the result of find_module and is dereferenced as `{ast.unparse(bad[0][1])}` without a dominating None test: a request that "
                    "names a module which does not exist raises AttributeError instead of the library's refusal", function=f.qualname)
    res.floor("R09.10", "find_module results dereferenced in the refactoring modules", n, 1)


def check(ctx, res) -> None:
    _check_body(ctx, res)
    module_without_file_rule(ctx, res, "R09.12")
    path_from_a_name_rule(ctx, res, "R09.16")
    from .common import memo_key_rule

    memo_key_rule(ctx, res, "R09.11", ("rope.base.resources", "rope.base.project", "rope.base.fscommands", "rope.base.libutils"))
    from .c16 import encoding_from_text_rule

    encoding_from_text_rule(ctx, res, "R09.15")
    from .common import clamped_offset_rule as _co

    _co(ctx, res, "R09.14")
    from .common import bounded_scan_rule as _bs

    _bs(ctx, res, "R09.13")


def module_without_file_rule(ctx, res, rule: str) -> None:
    """R09.12 (= R01.21): `AbstractModule` is also the class of builtin and extension modules (`sys`, `math`), whose
    `get_resource()` is None -- only PyModule / PyPackage always have a file.  Where a refactoring knows its object only as an
    AbstractModule (an `isinstance(..., AbstractModule)` test, directly or through a one-line predicate, or a `case
    AbstractModule()` pattern) and takes the object's resource, the resource is compared with None before it is used; handed on
    as it is, the request ends in AttributeError ('NoneType' object has no attribute 'is_folder') instead of rope's
    refactoring error."""
    from . import common
    idx = ctx.idx
    n = 0

    def is_abstract_test(t) -> bool:
        return any(isinstance(c, ast.Call) and call_name(c) == "isinstance" and len(c.args) == 2 and any(
            (dotted(e) or "").split(".")[-1] == "AbstractModule" for e in (c.args[1].elts if isinstance(c.args[1], ast.Tuple) else [c.args[1]])) for c in ast.walk(t))

    for f in sorted(idx.functions.values(), key=lambda f: f.qualname):
        if not f.unit.modname.startswith("rope.refactor") or f.parent is not None:
            continue
        if not any(isinstance(c, ast.Call) and call_name(c) == "get_resource" for c in ast.walk(f.node)):
            continue
        node = common.inlined(idx, f)
        cfg = CFG(node)

        def via_predicate(t) -> bool:
            """a predicate of the class with several statements whose body tests `isinstance(<object>, AbstractModule)`"""
            for c_ in ast.walk(t):
                if isinstance(c_, ast.Call) and is_self_attr(c_.func) and f.cls is not None:
                    pm = idx.find_method(f.cls.qualname, c_.func.attr)
                    if pm is not None and is_abstract_test(pm.node):
                        return True
            return False
        sites = []  # get_resource() calls made where the object is known only as an AbstractModule
        for c in ast.walk(node):
            if not (isinstance(c, ast.Call) and call_name(c) == "get_resource" and not c.args):
                continue
            for nd in cfg.node_containing(c):
                if any(pol and (is_abstract_test(t) or via_predicate(t)) for t, pol in common.plain_guards(cfg, nd.id)):
                    sites.append(c)
                    break
        for x in ast.walk(node):
            if isinstance(x, ast.Match):
                for case in x.cases:
                    if any(isinstance(p, ast.MatchClass) and (dotted(p.cls) or "").split(".")[-1] == "AbstractModule" for p in ast.walk(case.pattern)):
                        sites += [c for st in case.body for c in ast.walk(st) if isinstance(c, ast.Call) and call_name(c) == "get_resource" and not c.args and c not in sites]
        for c in sites:
            n += 1
            # the statement that holds the call: an assignment to a name that is None-tested somewhere in the function, or not
            holder = next((s_ for s_ in ast.walk(node) if isinstance(s_, ast.Assign) and s_.value is c and len(s_.targets) == 1 and isinstance(s_.targets[0], ast.Name)), None)
            tested = False
            if holder is not None:
                v = holder.targets[0].id
                for t in ast.walk(node):
                    if isinstance(t, ast.Compare) and isinstance(t.left, ast.Name) and t.left.id == v and len(t.ops) == 1 and isinstance(t.ops[0], (ast.Is, ast.IsNot)) \
                            and isinstance(t.comparators[0], ast.Constant) and t.comparators[0].value is None:
                        tested = True
                    if isinstance(t, (ast.If, ast.While, ast.IfExp)) and ((isinstance(t.test, ast.Name) and t.test.id == v) or (
                            isinstance(t.test, ast.UnaryOp) and isinstance(t.test.op, ast.Not) and isinstance(t.test.operand, ast.Name) and t.test.operand.id == v)):
                        tested = True
            res.add(rule, f"{f.qualname.split('.', 2)[-1]}|resource-of-an-abstract-module-is-none-tested#{n}", tested, f"{f.unit.rel}:{c.lineno}",
                    "the resource of an object known only as an AbstractModule is compared with None before use" if tested else
                    f"`{ast.unparse(c)[:60]}` is taken from an object known only to be an AbstractModule and used without a None test: for a builtin or extension module "
                    "(`import sys` ... the request at `sys`) the resource is None and the refactoring ends in AttributeError instead of a RefactoringError",
                    function=f.qualname)
    res.floor(rule, "resources taken from objects known only as AbstractModule", n, 1)


def path_from_a_name_rule(ctx, res, rule: str) -> None:
    """R09.16: performing a change touches only resources of the project.  Where a refactoring makes a PATH out of a name it was given (Rename of
    a module: `<parent>/<new_name>.py`), the name is an identifier -- `../x` would climb out of the project root, `a/b` would create or
    overwrite something elsewhere -- and the request is refused otherwise.  The construction of the MoveResource in the module-rename
    step stands behind an `isidentifier()` test of the name."""
    from . import common
    idx = ctx.idx
    f = common.rename_module_step(idx)
    ps = param_names(f.node)
    cfg = CFG(common.inlined(idx, f))
    n = 0
    for nd in cfg.nodes:
        if nd.ast is None or nd.kind not in ("stmt", "test") or not any(call_name(c) == "MoveResource" for c in calls_in(nd.ast)):
            continue
        n += 1
        ok = any(pol and isinstance(t, ast.Call) and call_name(t) == "isidentifier" and isinstance(t.func, ast.Attribute) and isinstance(t.func.value, ast.Name)
                 and t.func.value.id in ps for t, pol in common.plain_guards(cfg, nd.id))
        res.add(rule, f"Rename._rename_module|the-new-module-name-is-an-identifier#{n}", ok, f"{f.unit.rel}:{nd.lineno}",
                "the file is moved only to a name that is an identifier" if ok else
                "the new name is pasted into the destination path without a test that it is an identifier: `Rename(project, mod).get_changes('../evil')` is accepted, performing it moves "
                "the file OUT of the project root (`'../outside/ext'` overwrites a file there), and the importers are rewritten to `import ../evil`", function=f.qualname)
    res.floor(rule, "paths made from a new module name", n, 1)
