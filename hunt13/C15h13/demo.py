"""C15: a walrus target inside a comprehension / generator expression.

PEP 572: ``(y := x)`` written inside a comprehension binds ``y`` in the
scope that CONTAINS the comprehension, never in the comprehension itself.
rope records ``y`` as a name of the comprehension scope, leaves it out of
the enclosing function's name table, and ``lookup('y')`` from the function
finds nothing.

Oracle: the interpreter's own ``symtable`` (and running the code).
Exit 0 when rope agrees with the interpreter, 1 when it does not.
"""
import shutil
import symtable
import sys
import tempfile

from rope.base import libutils
from rope.base.project import Project

SRC = (
    "def f(z):\n"
    "    r = any((y := x) > 2 for x in z)\n"
    "    return y\n"
)


def interpreter_view():
    top = symtable.symtable(SRC, "m.py", "exec")
    (f_tab,) = [c for c in top.get_children() if c.get_name() == "f"]
    (gen_tab,) = f_tab.get_children()
    f_sym = f_tab.lookup("y")
    gen_sym = gen_tab.lookup("y")
    f_binds = f_sym.is_local() and f_sym.is_assigned()
    gen_binds = gen_sym.is_local()
    # and really run it: the value assigned inside the generator is visible
    # in f after the generator has finished
    ns = {}
    exec(compile(SRC, "m.py", "exec"), ns)
    ran = ns["f"]([1, 5, 9])
    return f_binds, gen_binds, ran


def rope_view(project):
    module_scope = libutils.get_string_module(project, SRC).get_scope()
    (f_scope,) = module_scope.get_scopes()
    (comp_scope,) = f_scope.get_scopes()
    in_f = "y" in f_scope.get_names()
    # the comprehension's get_names() also carries the inherited names of
    # the parent, so ask what the comprehension itself defines
    comp_own = set(comp_scope.get_names()) - set(f_scope.get_names())
    in_comp = "y" in comp_own
    found_from_f = f_scope.lookup("y")
    holder = module_scope.get_inner_scope_for_line(3)  # "return y"
    found_at_return = holder.lookup("y")
    return in_f, in_comp, found_from_f, holder, found_at_return


def main():
    f_binds, gen_binds, ran = interpreter_view()
    print("source:")
    print(SRC)
    print("interpreter: f binds y            :", f_binds)
    print("interpreter: genexpr binds y      :", gen_binds)
    print("interpreter: f([1, 5, 9]) returns :", ran, "(y set inside the generator, read in f)")

    tmp = tempfile.mkdtemp(prefix="c15h13_")
    project = Project(tmp)
    try:
        in_f, in_comp, found_from_f, holder, found_at_return = rope_view(project)
    finally:
        project.close()
        shutil.rmtree(tmp, ignore_errors=True)

    print("rope: 'y' in names of f           :", in_f)
    print("rope: 'y' defined by comprehension:", in_comp)
    print("rope: f_scope.lookup('y')         :", found_from_f)
    print(
        "rope: scope holding line 3 is %s %r, its lookup('y'): %s"
        % (holder.get_kind(), holder.pyobject.get_name(), found_at_return)
    )

    violated = False
    if in_f != f_binds:
        print("VIOLATION: name table of f disagrees with the symbol table about 'y'")
        violated = True
    if in_comp != gen_binds:
        print("VIOLATION: name table of the comprehension disagrees about 'y'")
        violated = True
    if f_binds and (found_from_f is None or found_at_return is None):
        print("VIOLATION: lookup('y') from f finds no binding; the interpreter uses f's local y")
        violated = True
    if not violated:
        print("OK: rope agrees with the interpreter")
    return 1 if violated else 0


if __name__ == "__main__":
    sys.exit(main())
