"""C06: adding a defaulted parameter in front of *args re-binds the calls' extra
positional arguments.

    def total(first, *rest): ...
    total(1, 2, 3)                       # first=1, rest=(2, 3)

ChangeSignature + ArgumentAdder(1, 'scale', default='1')  (no explicit value: the
calls are supposed to rely on the new default) produces

    def total(first, scale=1, *rest): ...
    total(1, 2, 3)                       # first=1, scale=2, rest=(3,)   <-- wrong

The call is left textually unchanged, so the value 2 that used to go to *rest now
goes to the new parameter, and the new parameter does not get its default.

Exit status: 0 = property holds, 1 = violated.
"""
import ast
import os
import shutil
import subprocess
import sys
import tempfile

from rope.base.project import Project
from rope.refactor.change_signature import ArgumentAdder, ChangeSignature

SRC = (
    "def total(first, *rest):\n"
    "    return first + sum(rest)\n"
    "\n"
    "\n"
    "print(total(1, 2, 3))\n"
)


def run(path):
    out = subprocess.run(
        [sys.executable, path], capture_output=True, text=True, timeout=60
    )
    return out.returncode, out.stdout.strip(), out.stderr.strip().splitlines()[-1:]


def bindings(source):
    """Bind the (only) module-level call of `total` against its definition
    with the interpreter's own rules (inspect.signature), independent of rope."""
    import inspect

    tree = ast.parse(source)
    ns = {}
    func = [n for n in tree.body if isinstance(n, ast.FunctionDef)][0]
    exec(compile(ast.Module([func], []), "<def>", "exec"), ns)
    sig = inspect.signature(ns["total"])
    call = [
        n
        for n in ast.walk(tree)
        if isinstance(n, ast.Call) and getattr(n.func, "id", None) == "total"
    ][0]
    args = [ast.literal_eval(a) for a in call.args]
    kwargs = {k.arg: ast.literal_eval(k.value) for k in call.keywords}
    bound = sig.bind(*args, **kwargs)
    bound.apply_defaults()
    return dict(bound.arguments)


def main():
    tmp = tempfile.mkdtemp(prefix="c06h13_")
    try:
        project = Project(tmp, ropefolder=None)
        mod = project.root.create_file("m.py")
        mod.write(SRC)
        path = os.path.join(tmp, "m.py")

        before_run = run(path)
        before_bind = bindings(SRC)

        changer = ArgumentAdder(1, "scale", default="1")  # value=None: use the default
        changes = ChangeSignature(project, mod, SRC.index("total")).get_changes(
            [changer]
        )
        project.do(changes)
        after_src = mod.read()
        project.close()

        after_run = run(path)
        after_bind = bindings(after_src)

        print("---- source after ChangeSignature([ArgumentAdder(1, 'scale', '1')])")
        print(after_src)
        print("run before :", before_run)
        print("run after  :", after_run)
        print("bound before:", before_bind)
        print("bound after :", after_bind)

        ok = True
        # every surviving parameter keeps its value ...
        for name, value in before_bind.items():
            if after_bind.get(name) != value:
                print(
                    "VIOLATION: parameter %r was bound to %r, is now bound to %r"
                    % (name, value, after_bind.get(name))
                )
                ok = False
        # ... the added one gets its default (no value was supplied) ...
        if after_bind.get("scale") != 1:
            print(
                "VIOLATION: new parameter 'scale' should get its default 1, gets %r"
                % (after_bind.get("scale"),)
            )
            ok = False
        # ... and the program behaves as before
        if before_run != after_run:
            print("VIOLATION: program output changed: %r -> %r" % (before_run, after_run))
            ok = False
        if ok:
            print("property holds for this input")
        return 0 if ok else 1
    finally:
        shutil.rmtree(tmp, ignore_errors=True)


if __name__ == "__main__":
    sys.exit(main())
