"""C02h13: a default value that has the same name as the parameter it initialises.

    v = 1
    def f(v=v):
        return v
    print(f())

Python evaluates the default ``v`` (right of ``=``) in the scope that ENCLOSES
the function, so it is a reference to the module-level ``v``.  rope looks every
name of the ``def`` statement up in the function's own scope and therefore
reports the default as an occurrence of the parameter, and misses it as an
occurrence of the module variable.  Renaming the module variable leaves the
default untouched and the program dies with NameError.

Exit status: 0 = property holds, 1 = violated.
"""
import ast
import shutil
import subprocess
import sys
import tempfile

from rope.base.project import Project
from rope.contrib import findit
from rope.refactor.rename import Rename

SOURCE = "v = 1\ndef f(v=v):\n    return v\nprint(f())\n"
NAME = "v"


# ---------------------------------------------------------------- oracle
def expected_bindings(source, name):
    """Partition the tokens `name` of `source` by binding, using only `ast`.

    Knows just what the input needs: module scope and (nested) function
    scopes; decorators, defaults, annotations of a ``def`` belong to the
    scope that contains the ``def``.
    Returns {offset: frozenset(offsets of the same binding)}.
    """
    line_starts = [0]
    for line in source.splitlines(True):
        line_starts.append(line_starts[-1] + len(line))

    def off(node):
        return line_starts[node.lineno - 1] + node.col_offset  # ASCII input

    class Scope:
        def __init__(self, parent):
            self.parent = parent
            self.local = False  # does this scope bind `name`?
            self.uses = []  # offsets of tokens `name` evaluated in this scope
            self.children = []
            if parent:
                parent.children.append(self)

    def walk(node, scope):
        if isinstance(node, (ast.FunctionDef, ast.AsyncFunctionDef, ast.Lambda)):
            a = node.args
            outer = list(a.defaults) + [d for d in a.kw_defaults if d is not None]
            params = a.posonlyargs + a.args + a.kwonlyargs
            params += [p for p in (a.vararg, a.kwarg) if p is not None]
            if not isinstance(node, ast.Lambda):
                outer += node.decorator_list
                outer += [p.annotation for p in params if p.annotation]
                if node.returns:
                    outer.append(node.returns)
            for n in outer:  # evaluated in the enclosing scope
                walk(n, scope)
            inner = Scope(scope)
            for p in params:
                if p.arg == name:
                    inner.local = True
                    inner.uses.append(off(p))
            body = node.body if isinstance(node.body, list) else [node.body]
            for n in body:
                walk(n, inner)
            return
        if isinstance(node, ast.Name) and node.id == name:
            scope.uses.append(off(node))
            if isinstance(node.ctx, (ast.Store, ast.Del)):
                scope.local = True
        for child in ast.iter_child_nodes(node):
            walk(child, scope)

    top = Scope(None)
    top.local = True
    walk(ast.parse(source), top)

    groups = {}  # binding scope -> offsets

    def collect(scope):
        owner = scope
        while not owner.local:
            owner = owner.parent
        groups.setdefault(owner, set()).update(scope.uses)
        for child in scope.children:
            collect(child)

    collect(top)
    result = {}
    for offsets in groups.values():
        for o in offsets:
            result[o] = frozenset(offsets)
    return result


def run(source):
    proc = subprocess.run(
        [sys.executable, "-c", source], capture_output=True, text=True
    )
    last = proc.stderr.strip().splitlines()[-1] if proc.stderr.strip() else ""
    return proc.returncode, proc.stdout.strip(), last


# ---------------------------------------------------------------- rope
def main():
    violated = False
    expected = expected_bindings(SOURCE, NAME)
    print("source:")
    print(SOURCE)
    tmp = tempfile.mkdtemp(prefix="c02h13_")
    try:
        project = Project(tmp, ropefolder=None)
        mod = project.root.create_file("m.py")
        mod.write(SOURCE)

        print("find_occurrences, asked at every token %r:" % NAME)
        for offset in sorted(expected):
            got = frozenset(
                loc.region[0]
                for loc in findit.find_occurrences(project, mod, offset)
                if loc.resource == mod
            )
            ok = got == expected[offset]
            violated |= not ok
            print(
                "  offset %2d: rope %-14s expected %-14s %s"
                % (offset, sorted(got), sorted(expected[offset]), "ok" if ok else "WRONG")
            )

        # the same through Rename: rename the module-level variable (offset 0)
        before = run(SOURCE)
        changes = Rename(project, mod, 0).get_changes("z")
        project.do(changes)
        renamed = mod.read()
        after = run(renamed)
        print("\nafter Rename(offset 0 -> 'z'):")
        print(renamed)
        print("program before: exit=%s stdout=%r %s" % before)
        print("program after : exit=%s stdout=%r %s" % after)
        if before[:2] != after[:2]:
            violated = True
        project.close()
    finally:
        shutil.rmtree(tmp, ignore_errors=True)

    if violated:
        print("\nVIOLATED: the default value `v` in `def f(v=v)` is bound to the "
              "module-level v, but rope counts it as the parameter.")
        return 1
    print("\nproperty holds for this input")
    return 0


if __name__ == "__main__":
    sys.exit(main())
