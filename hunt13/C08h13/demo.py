"""C08: the source-annotated syntax tree must cover every construct.

Input: a ``try`` statement that has BOTH an ``else`` and a ``finally`` clause.
``patchedast`` never visits the statements of the ``else`` clause: they get no
``region`` / ``sorted_children`` at all, the keyword ``else`` is swallowed as
"whitespace" in front of ``finally``, and the token ``finally`` is then searched
through that unvisited text (so it is found inside the identifier
``finally_done``).  Everything that cuts source by these regions (similar-code
search, restructure, use-function, extract's similar search) then fails with
AttributeError on the first match inside such an ``else`` clause.

Oracle: the interpreter's own ``ast`` positions (independent of rope).
exit 0 = property holds, exit 1 = violated.
"""
import ast as pyast
import shutil
import sys
import tempfile

from rope.base.project import Project
from rope.refactor import patchedast, similarfinder

SOURCE = """\
try:
    g(1)
except E:
    g(2)
else:
    finally_done = g(3)
finally:
    g(4)
"""

# the same statement without the ``finally`` clause: used as a control
CONTROL = """\
try:
    g(1)
except E:
    g(2)
else:
    finally_done = g(3)
"""


def interpreter_offsets(source, node):
    """(start, end) character offsets of `node` according to CPython"""
    lines = source.split("\n")
    starts = [0]
    for line in lines:
        starts.append(starts[-1] + len(line) + 1)

    def conv(lineno, col):
        line = lines[lineno - 1].encode("utf-8")
        return starts[lineno - 1] + len(line[:col].decode("utf-8"))

    return (
        conv(node.lineno, node.col_offset),
        conv(node.end_lineno, node.end_col_offset),
    )


def check(project, name, source):
    print("=" * 60)
    print(source)
    violations = []
    resource = project.root.create_file(name)
    resource.write(source)
    text = resource.read()

    tree = patchedast.get_patched_ast(text, True)

    # 1. lossless
    written = patchedast.write_ast(tree)
    print("write_ast reproduces the source:", written == text)
    if written != text:
        violations.append("write_ast differs from the source")

    # 2. every statement / expression of the module is annotated, and its
    #    region is the interpreter's region
    for node in pyast.walk(tree):
        if not isinstance(node, (pyast.stmt, pyast.expr)):
            continue
        expected = interpreter_offsets(text, node)
        region = getattr(node, "region", None)
        if region is None:
            violations.append(
                "%s %r at line %d was never annotated (no .region)"
                % (type(node).__name__, text[expected[0] : expected[1]], node.lineno)
            )
        elif tuple(region) != expected:
            violations.append(
                "%s region %r %r != interpreter %r %r"
                % (
                    type(node).__name__,
                    region,
                    text[region[0] : region[1]],
                    expected,
                    text[expected[0] : expected[1]],
                )
            )

    # 3. the interleaved child/text list of the try statement: keywords must be
    #    tokens of their own, found at their real place
    try_node = tree.body[0]
    tokens = [
        c if isinstance(c, str) else "<%s>" % type(c).__name__
        for c in try_node.sorted_children
    ]
    print("sorted_children of the try statement:")
    print("   ", tokens)
    kw_offsets = []
    offset = try_node.region[0]
    for child in try_node.sorted_children:
        if isinstance(child, str):
            if child == "finally":
                kw_offsets.append(offset)
            offset += len(child)
        else:
            offset += len(patchedast.write_ast(child))
    for off in kw_offsets:
        following = text[off + len("finally")]
        if following.isalnum() or following == "_":
            violations.append(
                "token 'finally' located at offset %d, inside the identifier %r"
                % (off, text[off:].split()[0])
            )

    # 4. a consumer of the regions: similar-code search for the calls of g
    expected_calls = sorted(
        interpreter_offsets(text, n)
        for n in pyast.walk(pyast.parse(text))
        if isinstance(n, pyast.Call)
    )
    try:
        finder = similarfinder.RawSimilarFinder(text)
        found = sorted(m.get_region() for m in finder.get_matches("g(${x})"))
        print("similar-code search for g(${x}):", [text[s:e] for s, e in found])
        if found != expected_calls:
            violations.append(
                "similar-code search found %r, the module contains %r"
                % (found, expected_calls)
            )
    except Exception as e:
        print("similar-code search for g(${x}) raised %s: %s" % (type(e).__name__, e))
        violations.append(
            "similar-code search over the annotated tree raised %s: %s"
            % (type(e).__name__, e)
        )

    for v in violations:
        print("VIOLATION:", v)
    if not violations:
        print("property holds for this input")
    return violations


def main():
    root = tempfile.mkdtemp(prefix="c08h13_")
    project = Project(root, ropefolder=None)
    try:
        control = check(project, "control.py", CONTROL)
        bad = check(project, "mod.py", SOURCE)
    finally:
        project.close()
        shutil.rmtree(root, ignore_errors=True)
    print("=" * 60)
    if control:
        print("control input (try/except/else) violated too")
    if bad or control:
        print("RESULT: property C08 VIOLATED")
        return 1
    print("RESULT: property C08 holds")
    return 0


if __name__ == "__main__":
    sys.exit(main())
