"""C16: a Latin-1 module whose coding line mentions the word "coding" twice
is silently re-encoded as UTF-8 by any rope edit.

    # encoding and decoding helpers -*- coding: latin-1 -*-

Python (PEP 263 regex, non-greedy ``.*?coding[:=]``) reads the declaration
``latin-1``.  rope's ``read_str_coding`` matches the same regex but then lets
``_find_coding`` re-scan the line with ``text.index("coding")``: that finds the
"coding" inside "encoding " first, sees no ':'/'=' after it, and returns None.
rope therefore believes there is no declaration, and every write encodes the
text as UTF-8 -- all non-ASCII characters outside the edit change their bytes
and the program prints something else.

exit 0: property holds;  exit 1: violated.
"""
import io
import os
import shutil
import subprocess
import sys
import tempfile
import tokenize

from rope.base.project import Project
from rope.refactor.rename import Rename

SOURCE = (
    b"# encoding and decoding helpers -*- coding: latin-1 -*-\n"
    b"name = 'caf\xe9'\n"
    b"print(ascii(name))\n"
)


def run(path):
    res = subprocess.run([sys.executable, path], capture_output=True)
    return res.returncode, res.stdout, res.stderr[-300:]


def main():
    declared = tokenize.detect_encoding(io.BytesIO(SOURCE).readline)[0]
    print("interpreter's reading of the coding line:", declared)
    compile(SOURCE, "m.py", "exec")  # valid module

    violated = False
    root = tempfile.mkdtemp(prefix="c16h13-")
    try:
        path = os.path.join(root, "m.py")

        # --- 1. a refactoring as the edit: rename `name` -> `label`
        with open(path, "wb") as f:
            f.write(SOURCE)
        before_run = run(path)
        project = Project(root, ropefolder=None)
        try:
            res = project.get_resource("m.py")
            text = res.read()
            project.do(Rename(project, res, text.index("name")).get_changes("label"))
        finally:
            project.close()
        with open(path, "rb") as f:
            after = f.read()
        expected = SOURCE.replace(b"name", b"label")
        after_run = run(path)
        print("rename: bytes expected:", expected)
        print("rename: bytes on disk :", after)
        print("rename: program before:", before_run)
        print("rename: program after :", after_run)
        if after != expected or before_run != after_run:
            violated = True
            print("  -> VIOLATION: bytes outside the edit changed "
                  "(\\xe9 became \\xc3\\xa9 in a latin-1 file)")

        # --- 2. plain File.write of an edited text, then read back via Python
        with open(path, "wb") as f:
            f.write(SOURCE)
        project = Project(root, ropefolder=None)
        try:
            res = project.get_resource("m.py")
            text = res.read()
            res.write(text + "# end\n")
        finally:
            project.close()
        with open(path, "rb") as f:
            after = f.read()
        expected = SOURCE + b"# end\n"
        print("write : bytes expected:", expected)
        print("write : bytes on disk :", after)
        if after != expected:
            violated = True
            print("  -> VIOLATION: appending a comment re-encoded the file")
        with open(path, encoding=declared) as f:
            as_python_sees = f.read()
        if as_python_sees != text + "# end\n":
            violated = True
            print("  -> VIOLATION: text written through rope does not read back "
                  "equal under the declared encoding: %r" % as_python_sees)
    finally:
        shutil.rmtree(root, ignore_errors=True)

    print("RESULT:", "property VIOLATED" if violated else "property holds")
    return 1 if violated else 0


if __name__ == "__main__":
    sys.exit(main())
