"""C09: performing a refactoring must never modify an ignored module nor
anything outside the project root.

Input (two variants of the same three-line program):

    proj/a.py      import gen
                   print(gen.f())
    gen.py         def f():
                       return 1

  variant "ignored": proj/gen.py is a real file, but the project was opened
                     with ignored_resources=["gen.py"] (e.g. generated code)
  variant "symlink": proj/gen.py is a symbolic link to ../shared/gen.py, a
                     file OUTSIDE the project root (rope treats every symlink
                     as an ignored resource)

Request: inline the call `gen.f()` in a.py, only the current occurrence
(create_inline(...).get_changes(only_current=True); remove=True is the
default).

Oracle (independent of rope): bytes of the protected file before / after,
and for the symlink variant an out-of-project program that uses shared/gen.py
is run with the interpreter before and after.

exit 0: property holds (protected file untouched; a refusal with a rope error
        is fine), exit 1: violated.
"""
import os
import shutil
import subprocess
import sys
import tempfile

from rope.base import exceptions
from rope.base.project import Project
from rope.refactor.inline import create_inline

A_SRC = "import gen\nprint(gen.f())\n"
GEN_SRC = "def f():\n    return 1\n"
USER_SRC = "import gen\nprint(gen.f() + 1)\n"  # lives outside the project


def tree(*roots):
    """(path -> kind/bytes) of everything below the roots, links not followed"""
    out = {}
    for root in roots:
        for dirpath, dirnames, filenames in os.walk(root):
            dirnames[:] = [d for d in dirnames if d not in (".ropeproject", "__pycache__")]
            out[dirpath] = "dir"
            for name in filenames:
                path = os.path.join(dirpath, name)
                if os.path.islink(path):
                    out[path] = ("link", os.readlink(path))
                else:
                    with open(path, "rb") as f:
                        out[path] = ("file", f.read())
    return out


def run_prog(path):
    proc = subprocess.run(
        [sys.executable, "-B", path], capture_output=True, text=True, cwd=os.path.dirname(path)
    )
    return proc.returncode, proc.stdout.strip(), proc.stderr.strip().splitlines()[-1:] or ""


def variant(kind):
    print("=== variant:", kind)
    violated = False
    base = tempfile.mkdtemp(prefix="c09h13_")
    try:
        root = os.path.join(base, "proj")
        shared = os.path.join(base, "shared")
        os.mkdir(root)
        os.mkdir(shared)
        with open(os.path.join(root, "a.py"), "w") as f:
            f.write(A_SRC)
        if kind == "ignored":
            protected = os.path.join(root, "gen.py")
            with open(protected, "w") as f:
                f.write(GEN_SRC)
            project = Project(root, ignored_resources=["gen.py"])
        else:
            protected = os.path.join(shared, "gen.py")
            with open(protected, "w") as f:
                f.write(GEN_SRC)
            with open(os.path.join(shared, "user.py"), "w") as f:
                f.write(USER_SRC)
            os.symlink(protected, os.path.join(root, "gen.py"))
            project = Project(root)
        try:
            gen_res = project.get_file("gen.py")
            print("rope says gen.py is ignored:", project.is_ignored(gen_res))
            print("project python files:", sorted(r.path for r in project.get_python_files()))
            if kind == "symlink":
                before_run = run_prog(os.path.join(shared, "user.py"))
                print("out-of-project program before:", before_run)

            before = tree(root, shared)
            a = project.get_resource("a.py")
            offset = A_SRC.index("f()")
            refused = False
            try:
                changes = create_inline(project, a, offset).get_changes(only_current=True)
                if tree(root, shared) != before:
                    print("VIOLATION: get_changes modified the disk")
                    violated = True
                print("listed resources:", sorted(r.path for r in changes.get_changed_resources()))
                print(changes.get_description())
                project.do(changes)
            except exceptions.RopeError as e:
                refused = True
                print("refused by rope:", type(e).__name__, e)
            except Exception as e:  # internal error
                print("VIOLATION: internal exception", type(e).__name__, e)
                violated = True
            after = tree(root, shared)
            if refused and after != before:
                print("VIOLATION: refused but disk changed")
                violated = True

            with open(protected, "rb") as f:
                now = f.read()
            print("protected file %s" % protected.replace(base, ""))
            print("   before:", GEN_SRC.encode())
            print("   after :", now)
            if now != GEN_SRC.encode():
                where = "an ignored module" if kind == "ignored" else "a file OUTSIDE the project root"
                print("VIOLATION: performing the changes modified " + where)
                violated = True
            outside_changed = [
                p for p in set(before) | set(after)
                if p.startswith(shared) and before.get(p) != after.get(p)
            ]
            if outside_changed:
                print("changed outside the project root:", [p.replace(base, "") for p in outside_changed])
                violated = True
            if kind == "symlink":
                after_run = run_prog(os.path.join(shared, "user.py"))
                print("out-of-project program after :", after_run)
                if after_run != before_run:
                    print("VIOLATION: a program outside the project no longer behaves the same")
                    violated = True
        finally:
            project.close()
    finally:
        shutil.rmtree(base)
    return violated


def main():
    results = [variant("ignored"), variant("symlink")]
    if any(results):
        print("RESULT: property C09 VIOLATED")
        return 1
    print("RESULT: property holds")
    return 0


if __name__ == "__main__":
    sys.exit(main())
