"""C17: EncapsulateField on an augmented write whose right-hand side contains an
operator that binds more loosely than the augmenting operator.

    a.x *= 1 + 2      must mean   a.x = a.x * (1 + 2)
    rope writes                   a.set_x(a.get_x() * 1 + 2)

Exit 1 when the refactored project behaves differently, 0 when it behaves the same
(or rope refuses the refactoring).
"""
import os
import shutil
import subprocess
import sys
import tempfile

from rope.base.project import Project
from rope.base.exceptions import RefactoringError
from rope.refactor.encapsulate_field import EncapsulateField

MOD = """class A:
    def __init__(self):
        self.x = 10
"""
MAIN = """import mod
a = mod.A()
a.x *= 1 + 2
print(a.x)
a.x -= 1 - 2
print(a.x)
"""


def run_main(root):
    r = subprocess.run(
        [sys.executable, "main.py"], cwd=root, capture_output=True, text=True
    )
    return r.returncode, r.stdout, r.stderr.strip().splitlines()[-1:] 


def main():
    root = tempfile.mkdtemp(prefix="c17h13_")
    try:
        with open(os.path.join(root, "mod.py"), "w") as f:
            f.write(MOD)
        with open(os.path.join(root, "main.py"), "w") as f:
            f.write(MAIN)
        before = run_main(root)
        project = Project(root, ropefolder=None)
        try:
            mod = project.get_resource("mod.py")
            try:
                changes = EncapsulateField(
                    project, mod, MOD.index("x = 10")
                ).get_changes()
            except RefactoringError as e:
                print("refused:", e)
                return 0
            project.do(changes)
        finally:
            project.close()
        print("--- main.py after EncapsulateField(A.x) ---")
        print(open(os.path.join(root, "main.py")).read())
        after = run_main(root)
        print("before:", before)
        print("after: ", after)
        if before != after:
            print("VIOLATION: client module behaves differently after the refactoring")
            return 1
        print("ok: same behaviour")
        return 0
    finally:
        shutil.rmtree(root, ignore_errors=True)


if __name__ == "__main__":
    sys.exit(main())
