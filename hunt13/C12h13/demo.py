"""C12: a folder move does not survive close/reopen as a folder move.

History:   1. move folder  pkg -> pkg2        (Folder.move)
           2. edit         pkg2/m.py          (File.write)
Then the first change is undone selectively: History.undo(change) promises
"this change and all changes that depend on it will be undone".  The edit of
pkg2/m.py depends on the move of its folder, so both must be undone and the
initial tree must be back -- with or without a close/reopen in between.

exit 0: the reopened project behaves like the one that was never closed
exit 1: it does not (the property is violated)
"""
import os
import shutil
import sys
import tempfile

from rope.base.project import Project


def tree(root):
    out = {}
    for folder, dirs, files in os.walk(root):
        if ".ropeproject" in dirs:
            dirs.remove(".ropeproject")
        for name in dirs:
            out[os.path.relpath(os.path.join(folder, name), root) + "/"] = None
        for name in files:
            path = os.path.join(folder, name)
            with open(path, "rb") as f:
                out[os.path.relpath(path, root)] = f.read()
    return out


def open_project(root):
    return Project(root, save_history=True, save_objectdb=True)


def scenario(reopen):
    root = tempfile.mkdtemp()
    try:
        os.mkdir(os.path.join(root, "pkg"))
        with open(os.path.join(root, "pkg", "m.py"), "wb") as f:
            f.write(b"a = 1\n")
        project = open_project(root)
        initial = tree(root)

        project.get_folder("pkg").move("pkg2")
        project.get_file("pkg2/m.py").write("a = 2\n")

        if reopen:
            project.close()
            project = open_project(root)

        history = project.history
        move = history.undo_list[0]
        kinds = sorted(
            (type(r).__name__, r.path) for r in move.get_changed_resources()
        )
        undone = [c.description for c in history.undo(move)]
        left = [c.description for c in history.undo_list]
        final = tree(root)
        project.close()
        return initial, kinds, undone, left, final
    finally:
        shutil.rmtree(root)


def main():
    results = {}
    for reopen in (False, True):
        initial, kinds, undone, left, final = scenario(reopen)
        results[reopen] = (kinds, undone, left, final)
        print("--- %s" % ("closed and reopened" if reopen else "never closed"))
        print("resources of the move change:", kinds)
        print("undone by undo(move)        :", undone)
        print("still in the undo list      :", left)
        print("initial tree                :", initial)
        print("tree after the undo         :", final)
        print("initial tree restored       :", final == initial)
    ok = results[True] == results[False] and results[True][3] == initial
    if ok:
        print("OK: the reopened history behaves like the original one")
        return 0
    print(
        "VIOLATION: after close/reopen the folder move came back as a move of "
        "File resources; the dependent edit is no longer undone with it and "
        "the tree that results never existed before"
    )
    return 1


if __name__ == "__main__":
    sys.exit(main())
