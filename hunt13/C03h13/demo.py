"""C03: extract method drops a loop-carried value.

The region `a = i + 1` sits at the end of a loop body.  `a` is not read inside
the region and not read after the loop -- but it IS read earlier in the loop
body, i.e. by the NEXT iteration.  rope does not return `a` from the extracted
function, so the loop never sees the new value.

exit 0: property holds (behaviour preserved, or the extraction is refused)
exit 1: property violated
"""
import ast
import shutil
import subprocess
import sys
import tempfile

from rope.base.exceptions import RefactoringError
from rope.base.project import Project
from rope.refactor.extract import ExtractMethod

SOURCE = """\
def f():
    a = 0
    for i in range(3):
        print(a)
        a = i + 1
f()
"""
REGION = "        a = i + 1\n"


def run(src):
    p = subprocess.run([sys.executable, "-c", src], capture_output=True, text=True)
    return p.returncode, p.stdout, p.stderr.strip().splitlines()[-1:]


def main():
    tmp = tempfile.mkdtemp(prefix="c03h13_")
    try:
        project = Project(tmp, ropefolder=None)
        mod = project.root.create_file("m.py")
        mod.write(SOURCE)
        start = SOURCE.index(REGION)
        end = start + len(REGION)
        try:
            changes = ExtractMethod(project, mod, start, end).get_changes("new_f")
        except RefactoringError as e:
            print("refused:", e)
            if mod.read() != SOURCE:
                print("VIOLATION: refused but the file changed")
                return 1
            print("OK (refusal is allowed)")
            return 0
        project.do(changes)
        new = mod.read()
        project.close()
    finally:
        shutil.rmtree(tmp, ignore_errors=True)

    print("---- original");  print(SOURCE)
    print("---- after extract method");  print(new)
    try:
        ast.parse(new)
    except SyntaxError as e:
        print("VIOLATION: result does not parse:", e)
        return 1
    before, after = run(SOURCE), run(new)
    print("behaviour before:", before)
    print("behaviour after :", after)
    if before != after:
        print("VIOLATION: extraction accepted, but the program behaves differently")
        return 1
    print("OK: behaviour preserved")
    return 0


if __name__ == "__main__":
    sys.exit(main())
