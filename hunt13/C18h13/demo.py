# C18 crash-point enumeration of Project.close(): every file open and every written byte of
# objectdb, objectdb.json, history, history.json is a crash point; after each, the project must open,
# give its history and analyse a module.  Exits 1 on a violation, 0 if the property holds (it does: none found).
import os, shutil, tempfile, builtins, collections
import rope.base.project as rp_mod
from rope.base.project import Project
from rope.refactor.rename import Rename

class Die(BaseException): pass
class Budget:
    def __init__(self, n): self.n = n
class W:
    def __init__(self, path, mode, budget):
        budget.n -= 1            # the open itself is an event
        if budget.n < 0: raise Die()
        self.f = builtins.open(path, mode, buffering=0) if "b" in mode else builtins.open(path, "wb", buffering=0)
        self.text = "b" not in mode
        self.b = budget
    def write(self, data):
        if self.text: data = data.encode("ascii")
        for i in range(len(data)):
            self.b.n -= 1
            if self.b.n < 0: raise Die()
            self.f.write(data[i:i+1])
        return len(data)
    def __enter__(self): return self
    def __exit__(self, *a): self.f.close()

root0 = tempfile.mkdtemp()
try:
    with open(os.path.join(root0, "m.py"), "w") as f:
        f.write("class C:\n    pass\ndef f(a):\n    return a\n\nl = []\nl.append(C())\nx = f(C())\ny = f('s')\n")
    kw = dict(save_history=True, save_objectdb=True)
    p = Project(root0, **kw); m = p.get_resource("m.py")
    p.pycore.analyze_module(m); p.do(Rename(p, m, m.read().index("f(a)")).get_changes("g")); p.close()
    res = collections.Counter(); n = 0
    while True:
        root = tempfile.mkdtemp(); shutil.rmtree(root); shutil.copytree(root0, root)
        try:
            p = Project(root, **kw); m = p.get_resource("m.py")
            p.history
            p.do(Rename(p, m, m.read().index("C:")).get_changes("D")); p.pycore.analyze_module(m)
            b = Budget(n)
            rp_mod.open = lambda path, mode, b=b: W(path, mode, b)
            died = False
            try: p.close()
            except Die: died = True
            finally: del rp_mod.open
            try:
                q = Project(root, **kw); h = q.history
                k = (len(h.undo_list), len(q.pycore.object_info.objectdb.files))
                pm = q.get_pymodule(q.get_resource("m.py")); pm.get_attributes(); q.pycore.analyze_module(q.get_resource("m.py"))
                pm["x"].get_object().get_type()
                res[("ok",) + k] += 1
            except Exception as e:
                res[("FAIL", n, type(e).__name__, str(e)[:60])] += 1
        finally:
            shutil.rmtree(root)
        if not died: break
        n += 1
    print("crash points:", n)
    for k, v in res.items(): print(k, v)
    failed = any(k[0] == "FAIL" for k in res)
finally:
    shutil.rmtree(root0)
import sys
print('VIOLATED' if failed else 'property holds for every crash point')
sys.exit(1 if failed else 0)
