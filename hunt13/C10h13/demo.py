"""C10: a failed History.undo(change) that has to undo several dependent
change sets is not all-or-nothing.

History.undo(c1) first undoes every later change that touches the same
resources (here c2), then c1 itself.  If the undo of c1 fails -- a file-system
command raises, or the task handle is stopped at the job boundary between the
two -- the error is reported, but c2 stays undone on disk and has already been
moved from the undo list to the redo list.

exit 0: tree and history are exactly as before the failed call
exit 1: they are not (property violated)
"""
import os
import shutil
import sys
import tempfile

from rope.base import change, fscommands, taskhandle
from rope.base.project import Project


class FaultyFS(fscommands.FileSystemCommands):
    """Plain file-system commands; the n-th write raises OSError."""

    def __init__(self):
        self.fail_at = None
        self.writes = 0

    def write(self, path, data):
        index = self.writes
        self.writes += 1
        if self.fail_at is not None and index == self.fail_at:
            raise OSError("injected: disk error on write #%d" % index)
        super().write(path, data)


def tree(root):
    result = {}
    for folder, dirs, files in os.walk(root):
        for name in files:
            path = os.path.join(folder, name)
            with open(path, "rb") as handle:
                result[os.path.relpath(path, root)] = handle.read()
    return result


def names(changes):
    return [c.description for c in changes]


def scenario(kind):
    root = tempfile.mkdtemp()
    try:
        with open(os.path.join(root, "a.py"), "wb") as handle:
            handle.write(b"x = 1\n")
        fs = FaultyFS()
        project = Project(root, fscommands=fs, ropefolder=None)
        a = project.get_file("a.py")

        c1 = change.ChangeSet("c1")
        c1.add_change(change.ChangeContents(a, "x = 2\n"))
        project.do(c1)
        c2 = change.ChangeSet("c2")
        c2.add_change(change.ChangeContents(a, "x = 3\n"))
        project.do(c2)

        history = project.history
        before_tree = tree(root)
        before_hist = (names(history.undo_list), names(history.redo_list))

        handle = taskhandle.TaskHandle()
        if kind == "fault":
            # undo(c1) = undo c2 (write #0), then undo c1 (write #1 fails)
            fs.writes = 0
            fs.fail_at = 1
        else:
            # stop the task when the first job (undo of c2) has finished;
            # the stop is honoured at the start of the next job (undo of c1)
            def observer():
                jobsets = handle.get_jobsets()
                if not handle.is_stopped() and jobsets and jobsets[0].done == 1:
                    handle.stop()

            handle.add_observer(observer)

        error = None
        try:
            history.undo(c1, task_handle=handle)
        except Exception as e:
            error = e
        fs.fail_at = None

        after_tree = tree(root)
        after_hist = (names(history.undo_list), names(history.redo_list))

        print("--- %s during history.undo(c1)" % kind)
        print("error reported :", type(error).__name__, error)
        print("a.py before    :", before_tree["a.py"])
        print("a.py after     :", after_tree["a.py"])
        print("undo/redo before:", before_hist)
        print("undo/redo after :", after_hist)
        if error is None:
            print("(no failure happened; nothing to check)")
            return True
        ok = before_tree == after_tree and before_hist == after_hist
        print("all-or-nothing :", ok)
        return ok
    finally:
        shutil.rmtree(root, ignore_errors=True)


if __name__ == "__main__":
    results = [scenario("fault"), scenario("stop")]
    if all(results):
        print("PROPERTY HOLDS")
        sys.exit(0)
    print("PROPERTY VIOLATED: the failed undo left c2 undone and the history changed")
    sys.exit(1)
