"""C11: selective undo must undo exactly the dependent later changes and leave
the others in force, so that the tree equals the one obtained by replaying only
the changes that are still listed in history.undo_list.

History (all through the public Resource API):
    c0  create file   x
    c1  move          x -> y          (the name x is free again)
    c2  create folder x               (same path as the former file, other kind)
    c3  create file   x/keep.py
    c4  write         x/keep.py
    undo(c0)   -- selective undo of the first change
"""
import os
import shutil
import sys
import tempfile

from rope.base.project import Project


def snapshot(root):
    out = {}
    for d, dirs, files in os.walk(root):
        rel = os.path.relpath(d, root)
        if rel != ".":
            out[rel.replace(os.sep, "/") + "/"] = None
        for f in files:
            p = os.path.normpath(os.path.join(rel, f)).replace(os.sep, "/")
            with open(os.path.join(d, f), "rb") as fh:
                out[p] = fh.read()
    return out


# --- a rope-independent model of the five operations on a dict tree ---------
def replay(ops):
    tree = {}
    for op in ops:
        if op[0] == "create_file":
            tree[op[1]] = b""
        elif op[0] == "create_folder":
            tree[op[1] + "/"] = None
        elif op[0] == "move":
            tree[op[2]] = tree.pop(op[1])
        elif op[0] == "write":
            tree[op[1]] = op[2]
    return tree


OPS = [
    ("create_file", "x"),
    ("move", "x", "y"),
    ("create_folder", "x"),
    ("create_file", "x/keep.py"),
    ("write", "x/keep.py", b"data = 1\n"),
]


def main():
    root = tempfile.mkdtemp()
    try:
        project = Project(root, ropefolder=None)
        hist = project.history
        performed = []

        def last():
            performed.append(hist.undo_list[-1])

        project.root.create_file("x"); last()
        project.get_file("x").move("y"); last()
        project.root.create_folder("x"); last()
        project.get_folder("x").create_file("keep.py"); last()
        project.get_file("x/keep.py").write("data = 1\n"); last()

        before = snapshot(root)
        print("tree after the five changes :", before)
        assert before == replay(OPS), "model and rope disagree before the undo"

        undone = hist.undo(performed[0])
        print("undo(c0) reports undone      :", [str(c).split(" - ")[0] for c in undone])
        still_listed = [i for i, c in enumerate(performed)
                        if any(c is u for u in hist.undo_list)]
        print("still in undo_list (in force):", ["c%d" % i for i in still_listed])

        expected = replay([OPS[i] for i in still_listed])
        observed = snapshot(root)
        print("expected tree (replay of the changes still in force):", expected)
        print("observed tree on disk                               :", observed)
        project.close()
        if observed != expected:
            print("VIOLATION: changes that are still listed as performed were wiped "
                  "out by the selective undo (folder x and x/keep.py are gone)")
            return 1
        print("property holds")
        return 0
    finally:
        shutil.rmtree(root, ignore_errors=True)


if __name__ == "__main__":
    sys.exit(main())
