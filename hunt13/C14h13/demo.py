"""C14: logical-line boundaries must be the tokenizer's statement boundaries.

Input: a triple-quoted string whose last character is an escaped quote
(see SOURCE below).  Python closes the string on that line; rope's line scanner does not.
"""
import io
import shutil
import sys
import tempfile
import token
import tokenize

from rope.base.project import Project
from rope.refactor.inline import create_inline

SOURCE = 'x = """a\\""""\ny = 1\nprint(x, y)\n'


def tokenizer_statements(source):
    """(first line, last line) of every statement, from the real tokenizer"""
    skip = (token.NL, token.COMMENT, token.INDENT, token.DEDENT, token.ENDMARKER)
    result, start = [], None
    for tok in tokenize.generate_tokens(io.StringIO(source).readline):
        if tok.type in skip:
            continue
        if tok.type == token.NEWLINE:
            result.append((start, tok.start[0]))
            start = None
        elif start is None:
            start = tok.start[0]
    return result


def main():
    compile(SOURCE, "m.py", "exec")  # the input is valid Python
    print("source:")
    print(SOURCE)
    expected = {}
    for start, end in tokenizer_statements(SOURCE):
        for lineno in range(start, end + 1):
            expected[lineno] = (start, end)

    violated = False
    tmp = tempfile.mkdtemp()
    try:
        project = Project(tmp, ropefolder=None)
        mod = project.root.create_file("m.py")
        mod.write(SOURCE)
        pymodule = project.get_pymodule(mod)
        for lineno in sorted(expected):
            got = pymodule.logical_lines.logical_line_in(lineno)
            flag = "ok" if got == expected[lineno] else "WRONG"
            print(
                "line %d: tokenizer statement %s, rope logical line %s  %s"
                % (lineno, expected[lineno], got, flag)
            )
            if got != expected[lineno]:
                violated = True

        # what that does to a refactoring: inline the variable `y`
        try:
            changes = create_inline(project, mod, SOURCE.index("y = 1")).get_changes()
            project.do(changes)
            after = mod.read()
            print("after inlining y: %r" % after)
            try:
                compile(after, "m.py", "exec")
                if "x =" not in after:
                    print("  -> the assignment to x was deleted")
                    violated = True
            except SyntaxError as e:
                print("  -> result is not even valid Python: %s" % e)
                violated = True
        except Exception as e:  # a refusal would be acceptable
            print("inline raised %s: %s" % (type(e).__name__, e))
        project.close()
    finally:
        shutil.rmtree(tmp)

    print("PROPERTY VIOLATED" if violated else "property holds")
    return 1 if violated else 0


if __name__ == "__main__":
    sys.exit(main())
