"""C05: moving a global function leaves `from a import f as ff` pointing at the
old module.  The client's aliased from-import is neither rewritten nor
reported; the client raises ImportError afterwards.

exit 0: property holds for this input; exit 1: violated.
"""
import ast
import os
import shutil
import subprocess
import sys
import tempfile

from rope.base.project import Project
from rope.refactor import move

FILES = {
    "a.py": "def f():\n    return 1\n",
    "b.py": "",
    "client.py": "from a import f as ff\nprint(ff())\n",
    # control: the same client without the alias is handled correctly
    "control.py": "from a import f\nprint(f())\n",
}


def run(root, module):
    shutil.rmtree(os.path.join(root, "__pycache__"), ignore_errors=True)
    p = subprocess.run(
        [sys.executable, "-c", "import %s" % module],
        cwd=root,
        capture_output=True,
        text=True,
    )
    last = p.stderr.strip().splitlines()[-1:] or [""]
    return p.returncode, p.stdout, last[0]


def stale_imports(root, module, gone_name, old_module):
    """from-imports of `gone_name` from `old_module` although the module no
    longer binds it (pure ast, independent of rope)"""
    with open(os.path.join(root, old_module + ".py")) as fh:
        old_tree = ast.parse(fh.read())
    bound = {
        n.name
        for n in old_tree.body
        if isinstance(n, (ast.FunctionDef, ast.ClassDef))
    }
    with open(os.path.join(root, module + ".py")) as fh:
        tree = ast.parse(fh.read())
    out = []
    for node in ast.walk(tree):
        if isinstance(node, ast.ImportFrom) and node.module == old_module:
            for alias in node.names:
                if alias.name == gone_name and gone_name not in bound:
                    out.append(ast.unparse(node))
    return out


def main():
    root = tempfile.mkdtemp(prefix="c05h13_")
    try:
        for name, src in FILES.items():
            with open(os.path.join(root, name), "w") as fh:
                fh.write(src)
        before = {m: run(root, m) for m in ("client", "control")}

        project = Project(root, ropefolder=None)
        try:
            res = project.get_resource("a.py")
            offset = res.read().index("f()")
            changes = move.create_move(project, res, offset).get_changes("b")
            print(changes.get_description())
            project.do(changes)
        finally:
            project.close()

        for name in sorted(FILES):
            with open(os.path.join(root, name)) as fh:
                print("----- %s after the move\n%s" % (name, fh.read()))
        after = {m: run(root, m) for m in ("client", "control")}
        violated = False
        for m in ("control", "client"):
            print("%-8s before: %r" % (m, before[m]))
            print("%-8s after : %r" % (m, after[m]))
            stale = stale_imports(root, m, "f", "a")
            if stale:
                print("%-8s stale import left behind: %s" % (m, stale))
            if before[m][:2] != after[m][:2] or stale:
                violated = True
        if violated:
            print("VIOLATED: a client of the moved function no longer works")
            return 1
        print("property holds for this input")
        return 0
    finally:
        shutil.rmtree(root, ignore_errors=True)


if __name__ == "__main__":
    sys.exit(main())
