"""C20h13: completion just after "<name-or-call><space>" is unsound.

With the cursor after a name (or a call / subscript / string) that is followed
by a blank -- the user is about to type an operator or `if`, `or`, `and` ... --
`Worder.get_splitted_primary_before` pretends that a "." separates the cursor
from the preceding primary and chops one character off it:

    x = foo |        ->  expression "fo",  prefix ""     (should be "", "")
    n = len(word) |  ->  expression "len(word", prefix ""
    k = int(foo)|    ->  expression "in", prefix "(foo)"

So code_assist() silently proposes the *attributes of another variable* (`fo`)
as if they could be written there and offers none of the visible names; or it
dies with BadIdentifierError because the chopped text does not parse.

Oracle (independent of rope): tokenize says the token before the cursor is not
a "."; therefore no object is being completed and everything proposed must be a
global of the module (symtable), a builtin or a keyword, and every module
global must be offered (the prefix is empty).

exit 0: property holds, exit 1: violated.
"""
import builtins
import io
import keyword
import shutil
import symtable
import sys
import tempfile
import tokenize
import traceback

from rope.base.project import Project
from rope.contrib import codeassist

SOURCE = 'fo = "text"\nfoo = 1\nx = foo + 2\nn = len(fo) + 2\nk = int(foo)\n'
#                                      ^cursor A        ^cursor B         ^cursor C
CURSORS = [
    ("A: after 'x = foo '", SOURCE.index("foo +") + len("foo ")),
    ("B: after 'n = len(fo) '", SOURCE.index("len(fo) +") + len("len(fo) ")),
    ("C: after 'k = int(foo)'", SOURCE.index("int(foo)") + len("int(foo)")),
]


def token_before(source, offset):
    """Last significant token that ends at or before `offset` (tokenize)."""
    starts = [0]
    for line in source.split("\n"):
        starts.append(starts[-1] + len(line) + 1)
    last = None
    for tok in tokenize.generate_tokens(io.StringIO(source).readline):
        if tok.type in (tokenize.NL, tokenize.NEWLINE, tokenize.ENDMARKER,
                        tokenize.INDENT, tokenize.DEDENT, tokenize.COMMENT):
            continue
        end = starts[tok.end[0] - 1] + tok.end[1]
        if end <= offset:
            last = tok
    return last


def main():
    compile(SOURCE, "<demo>", "exec")  # the module is valid Python
    table = symtable.symtable(SOURCE, "<demo>", "exec")
    module_names = {s.get_name() for s in table.get_symbols() if s.is_assigned()}
    referable = module_names | set(dir(builtins)) | set(keyword.kwlist)

    violated = False
    tmp = tempfile.mkdtemp()
    try:
        project = Project(tmp, ropefolder=None)
        try:
            for label, offset in CURSORS:
                print("-- cursor", label, "(offset %d)" % offset)
                print("   text before cursor: %r" % SOURCE[:offset].split("\n")[-1])
                tok = token_before(SOURCE, offset)
                print("   token before cursor (tokenize): %r" % tok.string)
                assert tok.string != ".", "not an attribute position"
                try:
                    proposals = codeassist.code_assist(project, SOURCE, offset)
                    start = codeassist.starting_offset(SOURCE, offset)
                except Exception:
                    print("   VIOLATION: code_assist raised an internal error:")
                    print("   " + traceback.format_exc().strip().splitlines()[-1])
                    violated = True
                    continue
                prefix = SOURCE[start:offset]
                names = sorted(p.name for p in proposals)
                print("   typed prefix according to rope: %r" % prefix)
                print("   %d proposals, e.g. %s" % (len(names), names[:6]))
                bogus = [n for n in names if n not in referable]
                not_extending = [n for n in names if not n.startswith(prefix)]
                if bogus:
                    print("   VIOLATION: proposed names that are neither globals, "
                          "builtins nor keywords (no object is being completed "
                          "here): %s ..." % bogus[:8])
                    violated = True
                if not_extending:
                    print("   VIOLATION: proposals do not extend the prefix:",
                          not_extending[:8])
                    violated = True
                if prefix.strip() == "":
                    missing = sorted(module_names - set(names))
                    if missing:
                        print("   VIOLATION: visible module names not offered "
                              "for the empty prefix: %s" % missing)
                        violated = True
                elif not prefix.isidentifier():
                    print("   VIOLATION: the 'text typed so far' is not an "
                          "identifier prefix at all: %r" % prefix)
                    violated = True
        finally:
            project.close()
    finally:
        shutil.rmtree(tmp, ignore_errors=True)

    print("RESULT:", "property VIOLATED" if violated else "property holds")
    return 1 if violated else 0


if __name__ == "__main__":
    sys.exit(main())
