"""C19h13: a statement pattern `if ...:` matches an `elif` clause; the
restructuring then overwrites the keyword `elif` with the goal's `if`, even
when goal == pattern, which splits the chain and changes behaviour."""
import ast
import contextlib
import io
import shutil
import sys
import tempfile

from rope.base.project import Project
from rope.refactor import restructure, similarfinder

SOURCE = (
    "a = b = True\n"
    "if a:\n"
    "    print('A')\n"
    "elif b:\n"
    "    print('B')\n"
)
# the elif clause is an ast.If of the module; abstract its test and argument
PATTERN = "if ${c}:\n    print(${s})"
GOAL = PATTERN  # identity restructuring


def run(code):
    out = io.StringIO()
    with contextlib.redirect_stdout(out):
        exec(compile(code, "m.py", "exec"), {})
    return out.getvalue()


def main():
    tmp = tempfile.mkdtemp()
    violated = False
    try:
        project = Project(tmp, ropefolder=None)
        try:
            mod = project.root.create_file("m.py")
            mod.write(SOURCE)

            pymodule = project.get_pymodule(mod)
            finder = similarfinder.SimilarFinder(pymodule)
            for match in finder.get_matches(PATTERN):
                start, end = match.get_region()
                text = SOURCE[start:end]
                print("match region %r: %r" % ((start, end), text))
                c = match.get_ast("c")
                s = match.get_ast("s")
                inst = PATTERN.replace("${c}", SOURCE[c.region[0]:c.region[1]])
                inst = inst.replace("${s}", SOURCE[s.region[0]:s.region[1]])
                try:
                    same = ast.dump(ast.parse(inst)) == ast.dump(ast.parse(text))
                except SyntaxError as e:
                    same = False
                    print("  matched text is not a statement on its own:", e.msg)
                if not same:
                    print("  (info) instantiated pattern %r != matched code" % inst)

            changes = restructure.Restructure(project, PATTERN, GOAL).get_changes()
            project.do(changes)
            result = mod.read()
        finally:
            project.close()
    finally:
        shutil.rmtree(tmp)

    print("--- before ---")
    print(SOURCE)
    print("--- after restructuring with goal == pattern ---")
    print(result)
    same_tree = ast.dump(ast.parse(SOURCE)) == ast.dump(ast.parse(result))
    before, after = run(SOURCE), run(result)
    print("syntax tree unchanged:", same_tree)
    print("output before: %r   output after: %r" % (before, after))
    if not same_tree or before != after:
        violated = True
    if violated:
        print("VIOLATION: identity restructuring turned 'elif' into 'if'")
        return 1
    print("property holds")
    return 0


if __name__ == "__main__":
    sys.exit(main())
