"""C13: a long-lived project must answer like a freshly opened one.

History: a.py imports a module `m` that does not exist yet; the project is
queried (cache warm); then the file other.py is moved to m.py THROUGH ROPE.
The move makes `import m` resolvable, but what rope concluded about a.py
while `m` was missing is never forgotten, so the warm project keeps answering
"x is unknown" and misses the occurrence of C.meth in a.py; a project freshly
opened on the same directory finds it.  A subsequent Rename done with the
warm project therefore breaks the program.

exit 0: warm == fresh (property holds);  exit 1: they differ (violated).
"""
import os
import shutil
import subprocess
import sys
import tempfile
import warnings

warnings.simplefilter("ignore")

from rope.base.project import Project
from rope.contrib import findit
from rope.refactor.rename import Rename

A_PY = "import m\nx = m.C()\nprint(x.meth())\n"
OTHER_PY = "class C:\n    def meth(self):\n        return 1\n"


def attrs_of_x(project):
    pymodule = project.get_pymodule(project.get_file("a.py"))
    pyobject = pymodule["x"].get_object()
    return sorted(k for k in pyobject.get_attributes() if not k.startswith("__"))


def occurrences_of_meth(project):
    m = project.get_file("m.py")
    offset = m.read().index("meth")
    return sorted(
        (occ.resource.path, occ.offset)
        for occ in findit.find_occurrences(project, m, offset)
    )


def run(root):
    proc = subprocess.run(
        [sys.executable, "a.py"], cwd=root, capture_output=True, text=True
    )
    tail = (proc.stdout + proc.stderr).strip().splitlines()[-1:]
    return proc.returncode, tail


def main():
    tmp = tempfile.mkdtemp()
    try:
        root = os.path.join(tmp, "proj")
        os.mkdir(root)
        with open(os.path.join(root, "a.py"), "w") as f:
            f.write(A_PY)
        with open(os.path.join(root, "other.py"), "w") as f:
            f.write(OTHER_PY)

        warm = Project(root, ropefolder=None)
        # a query while `m` does not exist yet: fills the caches of a.py
        print("warm, before the move : attributes of x =", attrs_of_x(warm))

        # the mutation, made through rope
        warm.get_file("other.py").move("m.py")
        print("moved other.py -> m.py through rope")

        warm_attrs = attrs_of_x(warm)
        warm_occs = occurrences_of_meth(warm)
        fresh = Project(root, ropefolder=None)
        fresh_attrs = attrs_of_x(fresh)
        fresh_occs = occurrences_of_meth(fresh)
        fresh.close()

        # independent oracle for the occurrences: plain text positions
        expected_occs = sorted(
            [("a.py", A_PY.index("meth")), ("m.py", OTHER_PY.index("meth"))]
        )

        print("warm  project: attributes of x     =", warm_attrs)
        print("fresh project: attributes of x     =", fresh_attrs)
        print("warm  project: occurrences of meth =", warm_occs)
        print("fresh project: occurrences of meth =", fresh_occs)
        print("text positions of 'meth'           =", expected_occs)

        violated = warm_attrs != fresh_attrs or warm_occs != fresh_occs

        # consequence, judged by the interpreter: rename C.meth with the
        # long-lived project and run the program before and after
        before = run(root)
        m = warm.get_file("m.py")
        changes = Rename(warm, m, m.read().index("meth")).get_changes("run")
        warm.do(changes)
        after = run(root)
        warm.close()
        print("python a.py before Rename(meth->run):", before)
        print("python a.py after  Rename(meth->run):", after)
        if before != after:
            violated = True

        if violated:
            print("VIOLATED: the long-lived project answers differently from a fresh one")
            return 1
        print("OK: warm and fresh projects agree")
        return 0
    finally:
        shutil.rmtree(tmp)


if __name__ == "__main__":
    sys.exit(main())
