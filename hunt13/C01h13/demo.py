"""C01: renaming a variable misses (or only renames) its walrus binding inside a comprehension.

PEP 572: the target of `:=` inside a comprehension / generator expression is
bound in the scope that CONTAINS the comprehension.  So in

    def f(words):
        hit = None
        any((hit := w).startswith('b') for w in words)
        return hit

all three `hit` are one variable of `f`.  Rename must rename all of them (or refuse).

exit 0: property holds for this input;  exit 1: violated.
"""
import ast
import os
import shutil
import subprocess
import symtable
import sys
import tempfile

from rope.base import exceptions
from rope.base.project import Project
from rope.refactor.rename import Rename

SOURCE = (
    "def f(words):\n"
    "    hit = None\n"
    "    any((hit := w).startswith('b') for w in words)\n"
    "    return hit\n"
    "print(f(['a', 'bc']))\n"
)
OLD, NEW = "hit", "found"


def run(root):
    p = subprocess.run(
        [sys.executable, "-B", "main.py"], cwd=root, capture_output=True, text=True
    )
    return p.returncode, p.stdout, p.stderr


def names(source, ident):
    return sorted(
        (n.lineno, n.col_offset)
        for n in ast.walk(ast.parse(source))
        if isinstance(n, ast.Name) and n.id == ident
    )


def oracle_one_binding(source):
    """Independent of rope: the compiler's symbol table says that `hit` in the
    generator expression is not local to it, i.e. it is the `hit` of f."""
    f = symtable.symtable(source, "main.py", "exec").get_children()[0]
    assert f.get_name() == "f" and f.lookup(OLD).is_local()
    (genexpr,) = f.get_children()
    sym = genexpr.lookup(OLD)
    return (not sym.is_local()) and sym.is_free()


def attempt(offset_of, label):
    root = tempfile.mkdtemp(prefix="c01h13_")
    try:
        with open(os.path.join(root, "main.py"), "w") as fh:
            fh.write(SOURCE)
        before = run(root)
        project = Project(root, ropefolder=None)
        try:
            resource = project.get_resource("main.py")
            offset = SOURCE.index(offset_of)
            try:
                changes = Rename(project, resource, offset).get_changes(NEW)
                project.do(changes)
            except exceptions.RefactoringError as e:
                print(f"[{label}] refused: {e}  -> property holds")
                return True
        finally:
            project.close()
        with open(os.path.join(root, "main.py")) as fh:
            new_source = fh.read()
        after = run(root)
        print(f"[{label}] rename of `{OLD}` at offset {offset} -> `{NEW}`; result:")
        print("".join("    | " + line for line in new_source.splitlines(True)), end="")
        left = names(new_source, OLD)
        renamed = names(new_source, NEW)
        print(f"    occurrences of {OLD!r} before: {names(SOURCE, OLD)}")
        print(f"    still named  {OLD!r} after : {left}")
        print(f"    now named    {NEW!r} after : {renamed}")
        print(f"    output before: {before[1]!r} (exit {before[0]})")
        print(f"    output after : {after[1]!r} (exit {after[0]})")
        ok = not left and len(renamed) == len(names(SOURCE, OLD)) and before == after
        print("    ->", "ok" if ok else "VIOLATION: one variable was split into two")
        return ok
    finally:
        shutil.rmtree(root, ignore_errors=True)


def main():
    print("source:")
    print("".join("    | " + line for line in SOURCE.splitlines(True)), end="")
    assert oracle_one_binding(SOURCE), "symtable: expected a single binding"
    print("symtable: `hit` in the generator expression is free -> it is f's `hit`;"
          " all 3 occurrences are one binding\n")
    ok = True
    # select the plain assignment in the function body
    ok &= attempt("hit = None", "from the assignment")
    # select the walrus target inside the generator expression
    ok &= attempt("hit :=", "from the walrus target")
    sys.exit(0 if ok else 1)


if __name__ == "__main__":
    main()
