"""C04h13: inlining a function that is called twice on one logical line.

Each call site on the line makes _InlineFunctionCallsForModuleHandle replace
the WHOLE logical line; the two overlapping replacements are concatenated by
ChangeCollector, so the statement is emitted twice, each copy with only one of
the two calls inlined.  With remove=True the definition is deleted although
both copies still call it (NameError); with remove=False the statement is
silently executed twice.

Exit 0: property holds.  Exit 1: violated.
"""
import ast
import os
import shutil
import subprocess
import sys
import tempfile

from rope.base.project import Project
from rope.refactor import inline

SOURCE = "def f(a):\n    return a * 2\nprint(f(1) + f(2))\n"


def run(folder):
    p = subprocess.run(
        [sys.executable, "main.py"], cwd=folder, capture_output=True, text=True,
        timeout=30,
    )
    return p.returncode, p.stdout, p.stderr.strip().splitlines()[-1:]


def check(remove):
    folder = tempfile.mkdtemp(prefix="c04h13_")
    violated = False
    try:
        path = os.path.join(folder, "main.py")
        with open(path, "w") as fh:
            fh.write(SOURCE)
        before = run(folder)
        project = Project(folder, ropefolder=None)
        try:
            resource = project.get_resource("main.py")
            offset = SOURCE.index("f(a)")
            try:
                changes = inline.create_inline(project, resource, offset).get_changes(
                    remove=remove
                )
            except Exception as e:  # a refusal is allowed by the property
                print("remove=%s: refused: %s: %s" % (remove, type(e).__name__, e))
                return False
            project.do(changes)
        finally:
            project.close()
        with open(path) as fh:
            new_source = fh.read()
        print("remove=%s: result:" % remove)
        print("    " + new_source.replace("\n", "\n    ").rstrip())
        try:
            tree = ast.parse(new_source)
        except SyntaxError as e:
            print("  VIOLATION: result does not parse:", e)
            return True
        defined = any(
            isinstance(n, ast.FunctionDef) and n.name == "f" for n in ast.walk(tree)
        )
        refs = [
            n.lineno
            for n in ast.walk(tree)
            if isinstance(n, ast.Name) and n.id == "f"
        ]
        if not defined and refs:
            print("  VIOLATION: definition removed but still referenced on lines", refs)
            violated = True
        n_print_before = SOURCE.count("print(")
        n_print_after = sum(
            1
            for n in ast.walk(tree)
            if isinstance(n, ast.Call)
            and isinstance(n.func, ast.Name)
            and n.func.id == "print"
        )
        if n_print_after != n_print_before:
            print(
                "  VIOLATION: the calling statement occurs %d times (was %d)"
                % (n_print_after, n_print_before)
            )
            violated = True
        after = run(folder)
        print("  behaviour before:", before)
        print("  behaviour after: ", after)
        if before != after:
            print("  VIOLATION: program behaves differently")
            violated = True
        return violated
    finally:
        shutil.rmtree(folder, ignore_errors=True)


def main():
    bad = False
    for remove in (True, False):
        bad = check(remove) or bad
    print("property", "VIOLATED" if bad else "holds")
    return 1 if bad else 0


if __name__ == "__main__":
    sys.exit(main())
