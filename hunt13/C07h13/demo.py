"""C07: organize_imports deletes ordinary code that shares a line with an import.

Input module (valid Python, one unused name in an import that is followed
by `; <statement>` on the same line):

    import os, sys; sys.stdout.write("started\n")
    print("done")

Oracle (independent of rope): run the module with the interpreter before and
after, compare the non-import statements with `ast`, and apply the action twice.
Exit 0 = property holds, exit 1 = violated.
"""
import ast
import os
import shutil
import subprocess
import sys
import tempfile

from rope.base.project import Project
from rope.refactor.importutils import ImportOrganizer

SOURCE = 'import os, sys; sys.stdout.write("started\\n")\nprint("done")\n'


def run_module(path):
    proc = subprocess.run(
        [sys.executable, path], capture_output=True, text=True, timeout=60
    )
    return proc.returncode, proc.stdout, proc.stderr.strip().splitlines()[-1:]


def non_import_statements(source):
    tree = ast.parse(source)
    return [
        ast.dump(node)
        for node in tree.body
        if not isinstance(node, (ast.Import, ast.ImportFrom))
    ]


def main():
    tmp = tempfile.mkdtemp(prefix="c07h13_")
    violations = []
    try:
        project = Project(tmp, ropefolder=None)
        path = os.path.join(tmp, "mod.py")
        with open(path, "w") as f:
            f.write(SOURCE)
        resource = project.get_resource("mod.py")

        before_src = resource.read()
        before_run = run_module(path)
        print("source before:\n" + before_src)
        print("run before   :", before_run)

        organizer = ImportOrganizer(project)
        changes = organizer.organize_imports(resource)
        if changes is not None:
            project.do(changes)
        after_src = resource.read()
        after_run = run_module(path)
        print("source after organize_imports:\n" + after_src)
        print("run after    :", after_run)

        if before_run != after_run:
            violations.append(
                "module no longer runs identically: %r -> %r" % (before_run, after_run)
            )
        if non_import_statements(before_src) != non_import_statements(after_src):
            violations.append(
                "non-import statements changed: %d statement(s) before, %d after"
                % (
                    len(non_import_statements(before_src)),
                    len(non_import_statements(after_src)),
                )
            )

        changes = organizer.organize_imports(resource)
        if changes is not None:
            project.do(changes)
            second_src = resource.read()
            print("source after a SECOND organize_imports:\n" + second_src)
            violations.append("not idempotent: the second application changed the file")

        project.close()
    finally:
        shutil.rmtree(tmp, ignore_errors=True)

    if violations:
        print("PROPERTY VIOLATED:")
        for v in violations:
            print("  -", v)
        return 1
    print("property holds for this input")
    return 0


if __name__ == "__main__":
    sys.exit(main())
