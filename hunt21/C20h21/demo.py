"""C20: go-to-definition on a module-level use of a name, on a line that is
still being typed and that directly follows a function with a parameter of the
same name, leads to the parameter instead of the module-level binding."""
import ast
import shutil
import sys
import tempfile

from rope.base.project import Project
from rope.contrib import codeassist

HEAD = "abc = 1\ndef f(abc):\n    pass\n"
LAST = "print(abc.real)"


def oracle_line(source, lineno, name):
    """Line of the binding that the use of `name` on module-level line
    `lineno` refers to, computed with ast only."""
    tree = ast.parse(source)
    # the use is in a statement of the module body, not inside a def/class
    stmt = [s for s in tree.body if s.lineno <= lineno <= s.end_lineno][0]
    assert not isinstance(stmt, (ast.FunctionDef, ast.ClassDef))
    for s in tree.body:
        if isinstance(s, ast.Assign):
            for t in s.targets:
                if isinstance(t, ast.Name) and t.id == name:
                    return s.lineno
    raise AssertionError("no module-level binding")


def main():
    full = HEAD + LAST + "\n"
    expected = oracle_line(full, 4, "abc")
    print("complete module:\n" + full)
    print("oracle (ast): `abc` on line 4 is bound on line", expected)
    tmp = tempfile.mkdtemp()
    project = Project(tmp)
    bad = 0
    try:
        col = LAST.index("abc") + 1  # cursor inside the identifier
        # every truncation of the current line that still contains `abc`
        for cut in range(LAST.index("abc") + 3, len(LAST) + 1):
            source = HEAD + LAST[:cut] + "\n"
            offset = len(HEAD) + col
            try:
                ast.parse(source)
                valid = True
            except SyntaxError:
                valid = False
            try:
                got = codeassist.get_definition_location(project, source, offset)
            except Exception as e:  # internal error
                got = "%s: %s" % (type(e).__name__, e)
            ok = got == (None, expected)
            print(
                "line 4 = %-18r valid=%-5s -> %r %s"
                % (LAST[:cut], valid, got, "" if ok else "  <-- WRONG")
            )
            if not ok:
                bad += 1
    finally:
        project.close()
        shutil.rmtree(tmp)
    if bad:
        print("VIOLATION: %d truncations lead to the parameter of f (line 2)" % bad)
        return 1
    print("property holds")
    return 0


if __name__ == "__main__":
    sys.exit(main())
