"""C07: organize_imports changes what a name means when two import
statements bind the same name.

    import pickle as s
    import json as s
    print(s.__name__)

Python binds ``s`` to json (the last import wins).  organize_imports treats
the second statement as the unused one (the used-name selector hands each
name out only once, to the FIRST statement that imports it), deletes it and
keeps ``import pickle as s``: the module silently prints "pickle" now.
"""
import ast
import os
import shutil
import subprocess
import sys
import tempfile

from rope.base.project import Project
from rope.refactor.importutils import ImportOrganizer

SOURCE = "import pickle as s\nimport json as s\nprint(s.__name__)\n"


def run_module(path):
    proc = subprocess.run(
        [sys.executable, path], capture_output=True, text=True, cwd=os.path.dirname(path)
    )
    return proc.returncode, proc.stdout, proc.stderr.strip().splitlines()[-1:]


def module_bound_to(source, name):
    """Which module the top-level name is bound to after all imports ran
    (static oracle: the last top-level import binding the name wins)."""
    bound = None
    for node in ast.parse(source).body:
        if isinstance(node, ast.Import):
            for alias in node.names:
                if (alias.asname or alias.name.split(".")[0]) == name:
                    bound = alias.name
    return bound


def main():
    root = tempfile.mkdtemp(prefix="c07h21_")
    try:
        path = os.path.join(root, "m.py")
        with open(path, "w") as f:
            f.write(SOURCE)
        before_run = run_module(path)
        before_bound = module_bound_to(SOURCE, "s")

        project = Project(root, ropefolder=None)
        try:
            resource = project.get_resource("m.py")
            changes = ImportOrganizer(project).organize_imports(resource)
            if changes is not None:
                project.do(changes)
        finally:
            project.close()

        with open(path) as f:
            after_source = f.read()
        after_run = run_module(path)
        after_bound = module_bound_to(after_source, "s")

        print("source before:", repr(SOURCE))
        print("source after :", repr(after_source))
        print("`s` is bound to (ast oracle) before: %s, after: %s" % (before_bound, after_bound))
        print("run before:", before_run)
        print("run after :", after_run)

        ok = before_run == after_run and before_bound == after_bound
        if ok:
            print("OK: every name still means the same, the module runs identically")
            return 0
        print("VIOLATION: organize_imports changed what `s` means")
        return 1
    finally:
        shutil.rmtree(root, ignore_errors=True)


if __name__ == "__main__":
    sys.exit(main())
