"""C05h21: moving a global leaves from-imports below module level stale.

A client that imports the moved function with a from-import that is not a
module-level statement (inside a function, or inside try/except) keeps
`from src import f` after `f` was moved from src.py to dest.py.

case A  function-level import: calling the client function now raises ImportError
case B  try: from fast import f / except ImportError: from slow import f:
        the client is left untouched and silently switches to slow.f

Oracle: the program is run by the interpreter before and after the move; and
an `ast` scan looks for from-imports of a name the named module no longer binds.
Exit 0 when the property holds, 1 when it is violated.
"""
import ast
import os
import shutil
import subprocess
import sys
import tempfile

from rope.base.project import Project
from rope.refactor import move

CASES = {
    "A function-level from-import": {
        "moved_from": "src",
        "files": {
            "src.py": "def f():\n    return 1\n",
            "dest.py": "",
            "client.py": "def g():\n    from src import f\n    return f()\n",
            "main.py": "import client\nprint(client.g())\n",
        },
    },
    "B try/except fallback from-import": {
        "moved_from": "fast",
        "files": {
            "fast.py": "def f():\n    return 'fast'\n",
            "slow.py": "def f():\n    return 'slow'\n",
            "dest.py": "",
            "client.py": (
                "try:\n"
                "    from fast import f\n"
                "except ImportError:\n"
                "    from slow import f\n"
            ),
            "main.py": "import client\nprint(client.f())\n",
        },
    },
}


def run_main(root):
    proc = subprocess.run(
        [sys.executable, "-B", "-c", "import main"],
        cwd=root,
        capture_output=True,
        text=True,
    )
    err = proc.stderr.strip().splitlines()
    return proc.returncode, proc.stdout, (err[-1] if err else "")


def stale_imports(root):
    """from-imports (anywhere in a file) of a name the module does not bind"""
    bound = {}
    for name in os.listdir(root):
        if name.endswith(".py"):
            with open(os.path.join(root, name)) as f:
                tree = ast.parse(f.read())
            names = set()
            for node in ast.walk(tree):
                if isinstance(node, (ast.FunctionDef, ast.ClassDef)):
                    names.add(node.name)
                elif isinstance(node, ast.Name) and isinstance(node.ctx, ast.Store):
                    names.add(node.id)
                elif isinstance(node, (ast.Import, ast.ImportFrom)):
                    for alias in node.names:
                        names.add((alias.asname or alias.name).split(".")[0])
            bound[name[:-3]] = (tree, names)
    result = []
    for modname, (tree, _) in sorted(bound.items()):
        for node in ast.walk(tree):
            if isinstance(node, ast.ImportFrom) and node.level == 0:
                if node.module in bound:
                    for alias in node.names:
                        if alias.name != "*" and alias.name not in bound[node.module][1]:
                            result.append(
                                "%s.py:%d: from %s import %s"
                                % (modname, node.lineno, node.module, alias.name)
                            )
    return result


def one_case(title, case):
    print("=== case", title)
    root = tempfile.mkdtemp(prefix="c05h21_")
    try:
        for name, text in case["files"].items():
            with open(os.path.join(root, name), "w") as f:
                f.write(text)
        before = run_main(root)
        stale_before = stale_imports(root)
        project = Project(root, ropefolder=None)
        try:
            resource = project.get_resource(case["moved_from"] + ".py")
            offset = resource.read().index("f(")
            changes = move.create_move(project, resource, offset).get_changes("dest")
            project.do(changes)
        finally:
            project.close()
        after = run_main(root)
        stale_after = stale_imports(root)
        with open(os.path.join(root, "client.py")) as f:
            print("client.py after the move:")
            print("    " + f.read().replace("\n", "\n    ").rstrip())
        print("run before:", before)
        print("run after :", after)
        print("stale from-imports before:", stale_before)
        print("stale from-imports after :", stale_after)
        ok = before == after and stale_after == stale_before
        print("->", "holds" if ok else "VIOLATED")
        return ok
    finally:
        shutil.rmtree(root)


def main():
    results = [one_case(title, case) for title, case in CASES.items()]
    if all(results):
        print("property holds for these inputs")
        return 0
    print("property violated: a from-import below module level still names the old module")
    return 1


if __name__ == "__main__":
    sys.exit(main())
