"""C08h21: the region rope gives a Starred node (`*args`) leaves out the star.

Property C08: every annotated node's region is exactly the text of that
construct (agrees with the interpreter's node positions, re-parses to the
same node).  For `f(*args)` rope annotates the ast.Starred node with the
region of `args` only.  Restructure cuts source by these regions, so
`f(${x})` -> `g(${x})` silently turns `f(*args)` into `g(args)`.
"""
import ast
import os
import shutil
import subprocess
import sys
import tempfile

from rope.base.project import Project
from rope.refactor import patchedast, restructure

SOURCE = (
    "def f(*a):\n"
    "    return a\n"
    "def g(*a):\n"
    "    return a\n"
    "args = (1, 2)\n"
    "print(f(*args))\n"
)


def run(path):
    return subprocess.run(
        [sys.executable, path], capture_output=True, text=True
    ).stdout


def main():
    violated = False

    # --- oracle 1: the region against the interpreter's own positions -------
    tree = patchedast.get_patched_ast(SOURCE, True)
    print("write_ast reproduces source:", patchedast.write_ast(tree) == SOURCE)
    lines = SOURCE.splitlines(True)
    starts = [0]
    for line in lines:
        starts.append(starts[-1] + len(line))
    for node in ast.walk(tree):
        if isinstance(node, ast.Starred):
            expected = (
                starts[node.lineno - 1] + node.col_offset,
                starts[node.end_lineno - 1] + node.end_col_offset,
            )
            got = tuple(node.region)
            text = SOURCE[got[0] : got[1]]
            reparsed = type(ast.parse("f(%s)" % text).body[0].value.args[0]).__name__
            print("Starred: interpreter region", expected, repr(SOURCE[expected[0] : expected[1]]))
            print("Starred: rope region       ", got, repr(text), "-> re-parses to", reparsed)
            if got != expected or reparsed != "Starred":
                violated = True

    # --- oracle 2: a refactoring that cuts by that region changes behaviour --
    tmp = tempfile.mkdtemp()
    try:
        project = Project(tmp, ropefolder=None)
        mod = project.root.create_file("m.py")
        mod.write(SOURCE)
        path = os.path.join(tmp, "m.py")
        before = run(path)
        refactoring = restructure.Restructure(project, "f(${x})", "g(${x})")
        project.do(refactoring.get_changes())
        after_src = mod.read()
        after = run(path)
        project.close()
        print("last line after restructure f(${x}) -> g(${x}):", repr(after_src.splitlines()[-1]))
        print("program output before:", before.strip())
        print("program output after: ", after.strip())
        if before != after:
            violated = True
    finally:
        shutil.rmtree(tmp)

    print("VIOLATED" if violated else "property holds")
    return 1 if violated else 0


if __name__ == "__main__":
    sys.exit(main())
