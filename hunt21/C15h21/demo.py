"""C15h21: a name looked up from a comprehension scope written in a class body
resolves to the class attribute; the interpreter skips the class scope there."""
import shutil
import symtable
import sys
import tempfile

from rope.base import evaluate, libutils
from rope.base.project import Project
from rope.refactor.rename import Rename

SRC = """\
x = 1
class C:
    x = 2
    y = list(x for _ in range(3))
print(C.y)
"""


def run(src):
    out = []
    try:
        exec(compile(src, "m", "exec"), {"print": lambda *a: out.append(a)})
    except Exception as e:  # noqa
        out.append(("raised", type(e).__name__, str(e)))
    return out


def main():
    violated = False

    # --- oracle: the interpreter's symbol table
    top = symtable.symtable(SRC, "m", "exec")
    cls = top.get_children()[0]
    gen = cls.get_children()[0]
    sym = gen.lookup("x")
    print("symtable: scope %r (%s) inside class %r: x is_global=%s is_free=%s is_local=%s"
          % (gen.get_name(), gen.get_type(), cls.get_name(),
             sym.is_global(), sym.is_free(), sym.is_local()))
    assert sym.is_global()  # the interpreter uses the module's x (line 1)
    expected_line = 1
    print("interpreter result of the module:", run(SRC))

    tmp = tempfile.mkdtemp()
    project = Project(tmp)
    try:
        pymodule = libutils.get_string_module(project, SRC)
        module_scope = pymodule.get_scope()
        class_scope = module_scope.get_scopes()[0]
        comp_scope = class_scope.get_scopes()[0]
        print("rope: scope at line %d inside %s scope %r"
              % (comp_scope.get_start(), class_scope.get_kind(),
                 class_scope.pyobject.get_name()))

        found = comp_scope.lookup("x")
        line = found.get_definition_location()[1]
        print("rope: comprehension_scope.lookup('x') -> binding on line %s (expected %s)"
              % (line, expected_line))
        if line != expected_line:
            violated = True

        offset = SRC.index("x for")
        line2 = evaluate.eval_location(pymodule, offset).get_definition_location()[1]
        print("rope: eval_location at the x of `x for` -> binding on line %s (expected %s)"
              % (line2, expected_line))
        if line2 != expected_line:
            violated = True

        # consequence: renaming the class attribute also rewrites the global read
        res = project.root.create_file("m.py")
        res.write(SRC)
        project.do(Rename(project, res, SRC.index("x = 2")).get_changes("z"))
        after = res.read()
        print("after Rename(C.x -> z):")
        print(after)
        before_out, after_out = run(SRC), run(after)
        print("behaviour before:", before_out)
        print("behaviour after: ", after_out)
        if before_out != after_out:
            violated = True
    finally:
        project.close()
        shutil.rmtree(tmp)

    print("VIOLATED" if violated else "holds")
    return 1 if violated else 0


if __name__ == "__main__":
    sys.exit(main())
