"""C14: a string literal written directly after the keyword `if` (or `elif`,
`or`) is taken for a prefixed string: rope's string region starts inside the
keyword, the plain string is classified as an f-string, and Rename rewrites
the text of the plain string literal.

exit 0: the property holds for this input; exit 1: it is violated.
"""
import io
import shutil
import subprocess
import sys
import tempfile
import tokenize

from rope.base import simplify
from rope.base.project import Project
from rope.refactor.rename import Rename

SOURCE = 'x = 1\ny = "{x}"\nprint(2 if"{x}"in y else 3)\n'


def tokenizer_regions(source):
    starts = [0]
    for line in source.splitlines(True):
        starts.append(starts[-1] + len(line))
    regions = []
    for tok in tokenize.generate_tokens(io.StringIO(source).readline):
        if tok.type in (tokenize.STRING, tokenize.COMMENT):
            regions.append(
                (
                    starts[tok.start[0] - 1] + tok.start[1],
                    starts[tok.end[0] - 1] + tok.end[1],
                )
            )
    return regions


def run(path):
    done = subprocess.run(
        [sys.executable, path], capture_output=True, text=True, timeout=60
    )
    return done.returncode, done.stdout, done.stderr


def main():
    violated = False
    compile(SOURCE, "m.py", "exec")  # the input is valid Python
    print("source:")
    print(SOURCE)

    # 1. the regions rope treats as strings vs. the tokenizer's STRING tokens
    expected = tokenizer_regions(SOURCE)
    ignored = simplify.ignored_regions(SOURCE)
    observed = [(start, end) for start, end, _ in ignored]
    print("tokenizer string/comment regions:", expected)
    print("rope ignored_regions            :", observed)
    for start, end, groups in ignored:
        print(
            "   rope region %r prefix=%r" % (SOURCE[start:end], groups.get("prefix"))
        )
    if observed != expected:
        print("VIOLATION: rope's string regions differ from the tokenizer's")
        violated = True

    # 2. the simplified text: a plain string must be blanked
    real = simplify.real_code(SOURCE)
    print("real_code:", repr(real))
    for start, end in expected:
        inner = real[start + 1 : end - 1]
        if inner.strip():
            print(
                "VIOLATION: the text of the plain string at %d is kept in the "
                "simplified text: %r" % (start, real[start:end])
            )
            violated = True

    # 3. consequence: Rename rewrites the text of a plain string literal
    tmp = tempfile.mkdtemp(prefix="c14h21_")
    try:
        project = Project(tmp, ropefolder=None)
        try:
            mod = project.root.create_file("m.py")
            mod.write(SOURCE)
            before = run(mod.real_path)
            changes = Rename(project, mod, SOURCE.index("x")).get_changes("z")
            project.do(changes)
            result = mod.read()
            after = run(mod.real_path)
        finally:
            project.close()
    finally:
        shutil.rmtree(tmp, ignore_errors=True)
    print("after Rename x -> z:")
    print(result)
    print("program output before:", before)
    print("program output after :", after)
    strings_before = [SOURCE[s:e] for s, e in tokenizer_regions(SOURCE)]
    strings_after = [result[s:e] for s, e in tokenizer_regions(result)]
    if strings_before != strings_after:
        print(
            "VIOLATION: string literals changed by the rename: %r -> %r"
            % (strings_before, strings_after)
        )
        violated = True
    if before != after:
        print("VIOLATION: the program behaves differently after the rename")
        violated = True

    if violated:
        print("RESULT: property C14 violated")
        return 1
    print("RESULT: property holds for this input")
    return 0


if __name__ == "__main__":
    sys.exit(main())
