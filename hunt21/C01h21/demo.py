"""C01: Rename of an __init__ parameter rewrites the keyword of a class
pattern (`case P(x=0)`), which names an ATTRIBUTE of the subject, not a
parameter.  The renamed program runs without error but prints something else.

exit 0: property holds (same output, or rope refused with RefactoringError)
exit 1: property violated
"""
import ast
import os
import shutil
import subprocess
import sys
import tempfile

from rope.base import exceptions
from rope.base.project import Project
from rope.refactor.rename import Rename

SOURCE = '''\
class P:
    def __init__(self, x):
        self.x = x


def g(p):
    match p:
        case P(x=0):
            return "zero"
    return "other"


print(g(P(0)), g(P(x=5)))
'''
NEW_NAME = "xx"


def run(root):
    p = subprocess.run(
        [sys.executable, "main.py"], cwd=root, capture_output=True, text=True
    )
    return p.returncode, p.stdout, p.stderr


def pattern_keywords(source):
    return [
        tuple(node.kwd_attrs)
        for node in ast.walk(ast.parse(source))
        if isinstance(node, ast.MatchClass)
    ]


def attributes_stored(source):
    return sorted(
        node.attr
        for node in ast.walk(ast.parse(source))
        if isinstance(node, ast.Attribute) and isinstance(node.ctx, ast.Store)
    )


def main():
    root = tempfile.mkdtemp(prefix="c01h21_")
    try:
        path = os.path.join(root, "main.py")
        with open(path, "w") as f:
            f.write(SOURCE)
        before = run(root)
        print("before:", before[:2])
        project = Project(root, ropefolder=None)
        try:
            resource = project.get_resource("main.py")
            offset = SOURCE.index("x):")  # the parameter x of P.__init__
            try:
                changes = Rename(project, resource, offset).get_changes(NEW_NAME)
            except exceptions.RefactoringError as e:
                print("refused:", e)
                return 0
            project.do(changes)
        finally:
            project.close()
        with open(path) as f:
            renamed = f.read()
        print("---- renamed main.py ----")
        print(renamed, end="")
        print("-------------------------")
        after = run(root)
        print("after: ", after[:2])
        if after[2]:
            print(after[2][-400:])

        violated = False
        # oracle 1: behaviour
        if before != after:
            print("VIOLATION: the renamed program prints something else")
            violated = True
        # oracle 2 (ast only): a class-pattern keyword is an attribute name; the
        # attribute `x` (self.x = ...) was not renamed, so the pattern must
        # still say x
        print(
            "class pattern keywords:",
            pattern_keywords(SOURCE), "->", pattern_keywords(renamed),
            "| attributes stored:",
            attributes_stored(SOURCE), "->", attributes_stored(renamed),
        )
        if attributes_stored(SOURCE) == attributes_stored(renamed) and (
            pattern_keywords(SOURCE) != pattern_keywords(renamed)
        ):
            print(
                "VIOLATION: the attribute keeps its name but the class pattern"
                " that reads it was rewritten"
            )
            violated = True
        if not violated:
            print("property holds for this input")
        return 1 if violated else 0
    finally:
        shutil.rmtree(root, ignore_errors=True)


if __name__ == "__main__":
    sys.exit(main())
