"""C03: extract method drops the value the region computes when the same name
is *conditionally* assigned again after the region.

    def f(a):
        b = 0
        b = a + 1          # <- extracted
        if a > 5:
            b = 100        # only on one path
        return b

The write `b = 100` puts `b` into `postwritten`, so the later `return b` is not
counted as a read of the region's value; `b` is not returned by the new function.
"""
import os
import shutil
import subprocess
import sys
import tempfile

from rope.base.exceptions import RefactoringError
from rope.base.project import Project
from rope.refactor.extract import ExtractMethod

SOURCE = """\
def f(a):
    b = 0
    b = a + 1
    if a > 5:
        b = 100
    return b


print(f(1), f(9))
"""
REGION = "    b = a + 1\n"


def run(path):
    p = subprocess.run([sys.executable, path], capture_output=True, text=True)
    err = p.stderr.strip().splitlines()[-1:] if p.returncode else []
    return p.returncode, p.stdout, err


def main():
    tmp = tempfile.mkdtemp(prefix="c03h21_")
    try:
        project = Project(tmp, ropefolder=None)
        try:
            mod = project.root.create_file("m.py")
            mod.write(SOURCE)
            path = os.path.join(tmp, "m.py")
            before = run(path)
            print("source:\n" + SOURCE)
            print("behaviour before:", before)
            start = SOURCE.index(REGION)
            end = start + len(REGION)
            try:
                changes = ExtractMethod(project, mod, start, end).get_changes("new")
            except RefactoringError as e:
                print("refused:", e)
                print("OK: the region was refused, nothing changed")
                return 0
            project.do(changes)
            with open(path) as f:
                after_src = f.read()
            print("after extract method of %r:\n%s" % (REGION, after_src))
            try:
                compile(after_src, "m.py", "exec")
            except SyntaxError as e:
                print("VIOLATION: result does not compile:", e)
                return 1
            after = run(path)
            print("behaviour after: ", after)
            if before != after:
                print("VIOLATION: the extracted module behaves differently")
                return 1
            print("OK: same behaviour")
            return 0
        finally:
            project.close()
    finally:
        shutil.rmtree(tmp, ignore_errors=True)


if __name__ == "__main__":
    sys.exit(main())
