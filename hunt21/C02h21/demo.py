"""C02: a name used in the element of a comprehension that stands in a class
body is resolved to the class attribute of that name; Python binds it to the
enclosing (here: module) variable, because a class body's names are not
visible in nested scopes, and a comprehension is a nested scope.

exit 0: property holds, exit 1: violated.
"""
import contextlib
import io
import os
import shutil
import subprocess
import sys
import tempfile

from rope.base.project import Project
from rope.contrib import findit
from rope.refactor.rename import Rename

SRC = (
    "x = 1\n"
    "class C:\n"
    "    x = 2\n"
    "    z = [x for _ in range(3)]\n"
    "print(C.z, C.x, x)\n"
)

MOD_X = SRC.index("x = 1")  # module variable
CLS_X = SRC.index("x = 2")  # class attribute
COMP_X = SRC.index("[x") + 1  # the element of the comprehension
ATTR_X = SRC.index("C.x") + 2  # C.x
LAST_X = SRC.rindex("x")  # the module variable, printed


def oracle():
    """Which binding does Python give the `x` of the comprehension?

    Run the module: the comprehension yields the value of the module's x (1),
    not of the class attribute (2).
    """
    namespace = {}
    with contextlib.redirect_stdout(io.StringIO()):
        exec(compile(SRC, "m.py", "exec"), namespace)
    z = namespace["C"].z
    print("Python: C.z == %r  (module x is 1, C.x is 2)" % (z,))
    return z == [1, 1, 1]


def run(path):
    proc = subprocess.run(
        [sys.executable, path], capture_output=True, text=True
    )
    return proc.returncode, proc.stdout.strip(), proc.stderr.strip().splitlines()[-1:] 


def main():
    violated = False
    is_global = oracle()
    assert is_global, "the oracle itself says the name is not the global one?"
    expected_module = sorted([MOD_X, COMP_X, LAST_X])
    expected_class = sorted([CLS_X, ATTR_X])

    root = tempfile.mkdtemp()
    try:
        project = Project(root, ropefolder=None)
        path = os.path.join(root, "m.py")
        with open(path, "w") as f:
            f.write(SRC)
        res = project.get_resource("m.py")
        before = run(path)
        print("program before:", before)

        for label, query, expected in [
            ("module x (asked at `x = 1`)", MOD_X, expected_module),
            ("module x (asked at the comprehension's x)", COMP_X, expected_module),
            ("module x (asked at the printed x)", LAST_X, expected_module),
            ("class attribute C.x (asked at `x = 2`)", CLS_X, expected_class),
            ("class attribute C.x (asked at `C.x`)", ATTR_X, expected_class),
        ]:
            got = sorted(
                loc.offset for loc in findit.find_occurrences(project, res, query)
            )
            ok = got == expected
            print("%-48s expected %s got %s %s" % (
                label, expected, got, "ok" if ok else "WRONG"))
            violated |= not ok

        changes = Rename(project, res, CLS_X).get_changes("w")
        project.do(changes)
        print("after Rename(C.x -> w):")
        print(res.read())
        after = run(path)
        print("program after:", after)
        if after != before:
            print("the rename of the class attribute changed the program")
            violated = True
        project.close()
    finally:
        shutil.rmtree(root)
    print("VIOLATED" if violated else "holds")
    return 1 if violated else 0


if __name__ == "__main__":
    sys.exit(main())
