"""C09h21: Rename of a module accepts a new name that is a relative path.

`Rename(project, mod.py).get_changes("../evil")` is not refused (only Python
keywords are); the change set lists the resource `../evil.py`, and
`project.do()` moves `mod.py` OUT of the project root (and rewrites the
importers to the text `import ../evil`).  With `"../outside/ext"` the file
lands on top of an existing out-of-project module and destroys it.

Oracle (independent of rope): recursive byte snapshot of the directory that
holds the project root and its sibling `outside/` folder, taken before
get_changes, after get_changes and after do.  Exit 1 if anything outside the
project root changed (or a listed resource lies outside it); exit 0 if the
request is refused with a RopeError and the disk is untouched.
"""
import ast
import os
import shutil
import sys
import tempfile

from rope.base import exceptions
from rope.base.project import Project
from rope.refactor.rename import Rename


def snapshot(top):
    out = {}
    for dirpath, dirnames, filenames in os.walk(top):
        for name in dirnames + filenames:
            path = os.path.join(dirpath, name)
            rel = os.path.relpath(path, top)
            if os.path.isdir(path):
                out[rel] = "<dir>"
            else:
                with open(path, "rb") as f:
                    out[rel] = f.read()
    return out


def diff(a, b):
    return sorted(k for k in set(a) | set(b) if a.get(k) != b.get(k))


def run_case(new_name):
    print("=== Rename module <mod> to %r" % new_name)
    violated = False
    base = tempfile.mkdtemp(prefix="c09h21_")
    try:
        root = os.path.join(base, "proj")
        outside = os.path.join(base, "outside")
        os.mkdir(root)
        os.mkdir(outside)
        with open(os.path.join(root, "mod.py"), "w") as f:
            f.write("x = 1\n")
        with open(os.path.join(root, "user.py"), "w") as f:
            f.write("import mod\nimport ext\nprint(mod.x, ext.thing)\n")
        # a module outside the project root that the project imports
        with open(os.path.join(outside, "ext.py"), "w") as f:
            f.write("thing = 'precious'\n")

        project = Project(root, ropefolder=None, python_path=[outside])
        real_root = os.path.realpath(root)
        before = snapshot(base)
        try:
            changes = Rename(project, project.get_resource("mod.py")).get_changes(
                new_name
            )
        except exceptions.RopeError as e:
            print("refused:", type(e).__name__, e)
            if snapshot(base) != before:
                print("VIOLATION: disk changed although the request was refused")
                return True
            print("disk untouched -> property holds")
            return False

        if snapshot(base) != before:
            print("VIOLATION: get_changes modified the disk:", diff(before, snapshot(base)))
            violated = True

        print("description:")
        print(changes.get_description())
        for res in sorted(changes.get_changed_resources(), key=lambda r: r.path):
            real = os.path.realpath(res.real_path)
            inside = real == real_root or real.startswith(real_root + os.sep)
            print("listed resource %-20r -> %s  inside project root: %s"
                  % (res.path, real, inside))
            if not inside:
                violated = True

        try:
            project.do(changes)
        except exceptions.RopeError as e:
            print("do() refused:", type(e).__name__, e)
        after = snapshot(base)
        for rel in diff(before, after):
            where = "inside " if rel == "proj" or rel.startswith("proj" + os.sep) else "OUTSIDE"
            print("changed on disk [%s project root]: %s   %r -> %r"
                  % (where, rel, before.get(rel), after.get(rel)))
            if where == "OUTSIDE":
                violated = True
        # independent check of what was written into the importer
        user = after.get(os.path.join("proj", "user.py"))
        if user is not None:
            try:
                ast.parse(user.decode())
            except SyntaxError as e:
                print("proj/user.py no longer parses:", e.msg, "->", user.decode().splitlines()[0])
        project.close()
    finally:
        shutil.rmtree(base)
    print("VIOLATION" if violated else "property holds")
    return violated


def main():
    results = [run_case("../evil"), run_case("../outside/ext")]
    if any(results):
        print("\nRESULT: C09 violated -- performing a Rename wrote outside the project root")
        return 1
    print("\nRESULT: property holds")
    return 0


if __name__ == "__main__":
    sys.exit(main())
