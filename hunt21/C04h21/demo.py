"""C04: inlining a function into ANOTHER module does not add the imports that
the parameter DEFAULT values need.

a.py:   LIMIT = 5
        def f(x=LIMIT):
            return x + 1
b.py:   import a
        print(a.f())

Inlining f turns b.py's call into `LIMIT + 1`: the default expression is
copied verbatim from a.py's header, but no `from a import LIMIT` is added (as
is done for names used in the BODY, see the control), so b.py dies with
NameError -- or silently reads an unrelated LIMIT when b happens to have one.

exit 0: property holds, exit 1: violated.
"""
import os
import shutil
import subprocess
import sys
import tempfile

from rope.base.project import Project
from rope.refactor import inline

A_DEFAULT = "LIMIT = 5\ndef f(x=LIMIT):\n    return x + 1\n"
A_BODY = "LIMIT = 5\ndef f(x=0):\n    return x + LIMIT + 1\n"  # control
B_PLAIN = "import a\nprint(a.f())\n"


def run(root):
    p = subprocess.run(
        [sys.executable, "b.py"], cwd=root, capture_output=True, text=True
    )
    err = p.stderr.strip().splitlines()[-1:] if p.returncode else []
    return p.returncode, p.stdout, err


def trial(title, a_src, b_src):
    root = tempfile.mkdtemp(prefix="c04h21_")
    try:
        with open(os.path.join(root, "a.py"), "w") as f:
            f.write(a_src)
        with open(os.path.join(root, "b.py"), "w") as f:
            f.write(b_src)
        before = run(root)
        project = Project(root, ropefolder=None)
        try:
            res = project.get_resource("a.py")
            offset = a_src.index("def f") + 4
            try:
                changes = inline.create_inline(project, res, offset).get_changes()
            except Exception as e:  # a refusal is allowed by the property
                print("[%s] refused: %s: %s" % (title, type(e).__name__, e))
                return True
            project.do(changes)
        finally:
            project.close()
        after = run(root)
        print("[%s]" % title)
        print("  b.py after inlining:")
        for line in open(os.path.join(root, "b.py")).read().splitlines():
            print("    | " + line)
        print("  run before:", before)
        print("  run after: ", after)
        ok = before == after
        print("  ->", "same behaviour" if ok else "BEHAVIOUR CHANGED")
        return ok
    finally:
        shutil.rmtree(root, ignore_errors=True)


def main():
    control = trial("control: LIMIT used in the body", A_BODY, B_PLAIN)
    default = trial("LIMIT used as the parameter default", A_DEFAULT, B_PLAIN)
    if default:
        print("property holds")
        return 0
    print(
        "VIOLATION: the default value's names were not imported into b.py"
        " (control with the name in the body %s)"
        % ("is handled correctly" if control else "also fails")
    )
    return 1


if __name__ == "__main__":
    sys.exit(main())
