"""C12: a str the data serializer accepts does not survive the round trip
through JSON text: two adjacent surrogate code points (high + low) come back
as ONE astral character, and two different dict keys collapse into one.

exit 0: the property holds for the input; exit 1: it is violated.
"""
import json
import sys

from rope.base.serializer import json_to_python, python_to_json


def round_trip(value, version):
    encoded = python_to_json(value, version=version)  # accepted: no exception
    text = json.dumps(encoded)  # JSON text, as project.write_data produces it
    return json_to_python(json.loads(text))


def same(a, b):
    """equal value of the same type, all the way down"""
    if type(a) is not type(b):
        return False
    if isinstance(a, (list, tuple)):
        return len(a) == len(b) and all(same(x, y) for x, y in zip(a, b))
    if isinstance(a, dict):
        if len(a) != len(b):
            return False
        return all(
            same(k1, k2) and same(v1, v2)
            for (k1, v1), (k2, v2) in zip(a.items(), b.items())
        )
    return a == b


HIGH, LOW = "\ud83d", "\ude00"  # two code points, each a valid Python str
pair = HIGH + LOW  # len 2
astral = "\U0001f600"  # len 1, a different str
assert pair != astral and len(pair) == 2 and len(astral) == 1

controls = [
    astral,  # an astral character alone is fine
    HIGH,  # a lone surrogate alone is fine
    LOW + HIGH,  # wrong order: fine
    {"1": (None, "01"), None: [], (1, ("a",)): {}},  # the shapes the tests know
]
inputs = [
    pair,
    ("defined", "mod.py", pair),
    {pair: 1, astral: 2},  # two different keys
    {(pair,): "a", (astral,): "b"},  # two different tuple keys
]

violated = False
for version in (1, 2):
    for value in controls:
        back = round_trip(value, version)
        ok = same(value, back)
        print("v%d control %-45a -> %-45a %s" % (version, value, back, "ok" if ok else "DIFFERENT"))
        violated |= not ok
    for value in inputs:
        back = round_trip(value, version)
        ok = same(value, back)
        print("v%d input   %-45a -> %-45a %s" % (version, value, back, "ok" if ok else "DIFFERENT"))
        violated |= not ok

# The same through a project: the JSON text that closing the project writes
# next to the pickled object information (.ropeproject/objectdb.json).
import os
import shutil
import tempfile

from rope.base.project import Project

root = tempfile.mkdtemp()
try:
    with open(os.path.join(root, "mod.py"), "w") as f:
        f.write("def f(x):\n    return x\n")
    project = Project(root, save_history=True, save_objectdb=True)
    db = project.pycore.object_info.objectdb
    stored = ("defined", "mod.py", pair)
    db.add_pername("mod.py", "f", "x", stored)
    project.close()
    project = Project(root, save_history=True, save_objectdb=True)
    kept = project.pycore.object_info.objectdb.db._files["mod.py"]["f"].per_name["x"]
    print("objectdb (pickle) after reopen: %a %s" % (kept, "ok" if same(stored, kept) else "DIFFERENT"))
    with open(os.path.join(root, ".ropeproject", "objectdb.json")) as f:
        state = json.load(f)["mod.py"]["f"]
    call_info, per_name = json_to_python(state)
    ok = same(stored, per_name["x"])
    print("objectdb.json decoded:          %a %s" % (per_name["x"], "ok" if ok else "DIFFERENT"))
    violated |= not ok
    project.close()
finally:
    shutil.rmtree(root)

if violated:
    print("VIOLATED: an accepted value does not decode to an equal value after the JSON text")
    sys.exit(1)
print("holds")
sys.exit(0)
