"""C17h21: encapsulate field turns the chained assignment `y = a.x = 7`
into `y = a.set_x(7)`, so `y` silently becomes None.

exit 0: the property holds (same behaviour, or the refactoring is refused)
exit 1: the property is violated
"""
import os
import shutil
import subprocess
import sys
import tempfile

from rope.base import exceptions
from rope.base.project import Project
from rope.refactor.encapsulate_field import EncapsulateField

MOD = """\
class A:
    def __init__(self):
        self.x = 1
"""

MAIN = """\
from mod import A
a = A()
y = a.x = 7
print(a.x, y)
"""


def run(folder):
    proc = subprocess.run(
        [sys.executable, "main.py"], cwd=folder, capture_output=True, text=True
    )
    return proc.returncode, proc.stdout, proc.stderr.strip().splitlines()[-1:]


def main():
    folder = tempfile.mkdtemp(prefix="c17h21_")
    try:
        for name, text in (("mod.py", MOD), ("main.py", MAIN)):
            with open(os.path.join(folder, name), "w") as f:
                f.write(text)
        before = run(folder)
        print("before:", before)

        project = Project(folder, ropefolder=None)
        try:
            mod = project.get_resource("mod.py")
            offset = mod.read().index("x = 1")
            try:
                changes = EncapsulateField(project, mod, offset).get_changes()
            except exceptions.RefactoringError as e:
                print("refused:", e)
                return 0
            project.do(changes)
        finally:
            project.close()

        with open(os.path.join(folder, "main.py")) as f:
            print("main.py after encapsulate field:")
            print(f.read())
        after = run(folder)
        print("after: ", after)
        if before == after:
            print("OK: same behaviour")
            return 0
        print("VIOLATION: the program behaves differently after the refactoring")
        return 1
    finally:
        shutil.rmtree(folder, ignore_errors=True)


if __name__ == "__main__":
    sys.exit(main())
