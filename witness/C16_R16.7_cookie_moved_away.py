"""R16.7: the shebang and the coding line belong to the module.  Before the repair MoveGlobal took every comment line
directly above the moved definition along with it -- including a coding cookie on line 1/2 -- and the source module,
now without its cookie, was silently re-encoded as UTF-8."""
import os, shutil, sys, tempfile
sys.path.insert(0, os.environ.get("ROPE", "/repo"))
import warnings; warnings.simplefilter("ignore")
from rope.base.project import Project
from rope.refactor import move
d = tempfile.mkdtemp()
try:
    src = "#!/usr/bin/env python\n# -*- coding: latin-1 -*-\ndef f():\n    return 'caf\xe9'\n\nX = 'na\xefve'\n"
    open(os.path.join(d, "src.py"), "wb").write(src.encode("latin-1"))
    open(os.path.join(d, "dst.py"), "w").write("")
    pr = Project(d, ropefolder=None)
    r = pr.get_resource("src.py")
    pr.do(move.create_move(pr, r, r.read().index("f(")).get_changes(pr.get_resource("dst.py")))
    pr.close()
    got = open(os.path.join(d, "src.py"), "rb").read()
    print(got)
    ok = got.startswith(b"#!/usr/bin/env python\n# -*- coding: latin-1 -*-\n") and b"na\xefve" in got
    sys.exit(0 if ok else 1)
finally:
    shutil.rmtree(d)
