"""F-C04-2: `x,y=2` after a read of x is taken for a write ('x' followed by ',y=' ends with '='):
InlineVariable leaves the read and removes the definition -> NameError."""
import tempfile, shutil
from rope.base.project import Project
from rope.refactor.inline import create_inline
root = tempfile.mkdtemp()
p = Project(root)
m = p.root.create_file("m.py")
src = "def g(a, y=0):\n    return a + y\n\ndef f():\n    x = 1\n    return g(x,y=2)\n\nr = f()\n"
m.write(src)
p.do(create_inline(p, m, src.index("x = 1")).get_changes())
out = m.read()
print(out)
try:
    ns = {}; exec(out, ns); ok = ns["r"] == 3
except Exception as e:
    print("raised", type(e).__name__, e); ok = False
p.close(); shutil.rmtree(root)
raise SystemExit(0 if ok else 1)
