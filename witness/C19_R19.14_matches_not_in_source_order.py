"""R19.14: a restructuring skips a statement match that overlaps the one before it (`start < last_end`).  That test is only
right for matches in SOURCE ORDER; the finder reports the matches of a nested block after those of the blocks around it.  A
nested instance that lies before a later top-level instance was taken for an overlap and silently left unrewritten."""
import os, shutil, sys, tempfile
sys.path.insert(0, os.environ.get("ROPE", "/repo"))
import warnings; warnings.simplefilter("ignore")
from rope.base.project import Project
from rope.refactor.restructure import Restructure
src = '''def f(a, b):
    if a:
        q = 2
    else:
        if b:
            x = 1
        print(a)
    if b:
        x = 1
    return 0
'''
d = tempfile.mkdtemp()
try:
    open(os.path.join(d, "m.py"), "w").write(src)
    pr = Project(d, ropefolder=None)
    r = pr.get_resource("m.py")
    ch = Restructure(pr, "if ${c}:\n    ${v} = 1", "if ${c}:\n    ${v} = 5").get_changes()
    pr.do(ch)
    out = r.read()
    pr.close()
    print(out)
    ok = out.count("= 5") == 2 and "= 1" not in out
    print("OK" if ok else "an instance was left unrewritten")
    sys.exit(0 if ok else 1)
finally:
    shutil.rmtree(d)
