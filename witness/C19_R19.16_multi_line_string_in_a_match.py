"""C19: a restructuring with goal == pattern must leave the syntax tree unchanged
and must insert the bound code so that it keeps its meaning.

Input: a call inside a function body whose argument is a triple-quoted string
that spans two lines.  The restructuring `len(${s})` -> `len(${s})` re-indents
the continuation line of the *string literal*, so the string gains four blanks.
"""
import os as _os, sys as _sys; _sys.path.insert(0, _os.environ.get("ROPE", "/repo"))  # the tree under test
import ast
import shutil
import sys
import tempfile

from rope.base.project import Project
from rope.refactor import restructure

SOURCE = 'def f():\n    return len("""a\nb""")\n'
PATTERN = "len(${s})"
GOAL = "len(${s})"


def run(code):
    env = {}
    exec(compile(code, "m.py", "exec"), env)
    return env["f"]()


def main():
    tmp = tempfile.mkdtemp()
    try:
        project = Project(tmp, ropefolder=None)
        mod = project.root.create_file("m.py")
        mod.write(SOURCE)
        changes = restructure.Restructure(project, PATTERN, GOAL).get_changes()
        project.do(changes)
        after = mod.read()
        project.close()
    finally:
        shutil.rmtree(tmp)

    print("pattern = goal =", PATTERN)
    print("--- before ---")
    print(SOURCE)
    print("--- after ---")
    print(after)
    same_ast = ast.dump(ast.parse(SOURCE)) == ast.dump(ast.parse(after))
    before_value, after_value = run(SOURCE), run(after)
    print("syntax tree unchanged:", same_ast)
    print("f() before:", before_value, " f() after:", after_value)
    if same_ast and before_value == after_value:
        print("OK: property holds")
        return 0
    print("VIOLATION: goal == pattern changed the program (string literal re-indented)")
    return 1


if __name__ == "__main__":
    sys.exit(main())
