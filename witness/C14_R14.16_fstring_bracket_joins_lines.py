"""R14.16: simplify.real_code keeps f-strings in the simplified text and then counted EVERY bracket character of that text
to find the newlines that lie inside parentheses.  A bracket in the literal part of an f-string -- f"(" , or the halves of
f"...(" f"...)" split over two lines, which occurs in 34 of 3778 files of the standard library and site-packages --
left the counter unbalanced: the statements that follow were glued into one line, and the word finder's answer at an
identifier reached back into the previous statement."""
import os, sys
sys.path.insert(0, os.environ.get("ROPE", "/repo"))
from rope.base import simplify, worder
bad = 0
src = 'x = f"("\n(y).z\nw = 0\n'
got = worder.Worder(src).get_primary_at(src.index("z"))
print("primary at z:", repr(got)); bad += got != "(y).z"
for src in ('a = f"("\nb = 1\n', 'a = (f"}}",\n 1)\nb = 2\n', 'a = f"(" f")"\nb = (1,\n2)\n'):
    out = simplify.real_code(src)
    # the line breaks the tokenizer sees: outside brackets kept, inside brackets blanked
    import io, tokenize
    depth, want = 0, list(src)
    starts = [0]
    for l in src.splitlines(True):
        starts.append(starts[-1] + len(l))
    for t in tokenize.generate_tokens(io.StringIO(src).readline):
        if t.type == tokenize.OP and t.string in "([{":
            depth += 1
        elif t.type == tokenize.OP and t.string in ")]}":
            depth -= 1
        elif t.type in (tokenize.NL, tokenize.NEWLINE) and t.string == "\n":
            off = starts[t.start[0] - 1] + t.start[1]
            ok = out[off] == ("\n" if depth == 0 else " ")
            if not ok:
                print("line break at", off, "of", repr(src), "->", repr(out)); bad += 1
print("OK" if not bad else "real_code disagrees with the tokenizer")
sys.exit(1 if bad else 0)
