"""Witness harness for the C08 findings: annotate a snippet with rope's patched AST and show the node
that receives no region (R08.2) or a region that is not the text of the literal (R08.4/R08.5).

usage: /venv/bin/python witness/C08_patchedast.py [key ...]
"""
import ast
import sys
import warnings

from rope.refactor import patchedast

FIELD_CASES = {
    "R08.2|FunctionDef.returns": ("def f() -> int:\n    pass\n", "FunctionDef", "returns"),
    "R08.2|AsyncFunctionDef.returns": ("async def f() -> int:\n    pass\n", "AsyncFunctionDef", "returns"),
    "R08.2|ClassDef.keywords": ("class C(metaclass=type):\n    pass\n", "ClassDef", "keywords"),
    "R08.2|ClassDef.type_params": ("class C[T]:\n    pass\n", "ClassDef", "type_params"),
    "R08.2|TypeAlias.type_params": ("type X[T] = list[T]\n", "TypeAlias", "type_params"),
    "R08.2|FormattedValue.format_spec": ("x = f'{a:>{w}}'\n", "FormattedValue", "format_spec"),
    "R08.2|arg.annotation": ("def f(a: int):\n    pass\n", "arg", "annotation"),
    "R08.2|arguments.posonlyargs": ("def f(a, /, b):\n    pass\n", "arguments", "posonlyargs"),
    "R08.2|arguments.vararg": ("def f(*a):\n    pass\n", "arguments", "vararg"),
    "R08.2|arguments.kwonlyargs": ("def f(*, k):\n    pass\n", "arguments", "kwonlyargs"),
    "R08.2|arguments.kw_defaults": ("def f(*, k=1):\n    pass\n", "arguments", "kw_defaults"),
    "R08.2|arguments.kwarg": ("def f(**k):\n    pass\n", "arguments", "kwarg"),
}
LITERAL_CASES = {
    "R08.4|Hexnumber|plain": "0X1F", "R08.4|Binnumber|plain": "0B101", "R08.4|Octnumber|plain": "0O17",
    "R08.4|Decnumber|underscore": "1_000", "R08.4|Pointfloat|underscore": "1_0.5", "R08.4|Expfloat|underscore": "1e1_0",
    "R08.4|Imagnumber|underscore": "1_0j", "R08.5|prefix:rb": "rb'abc'",
}


def run(key):
    warnings.simplefilter("ignore")
    if key in FIELD_CASES:
        src, ctor, fld = FIELD_CASES[key]
        tree = patchedast.get_patched_ast(src, True)
        for n in ast.walk(tree):
            if type(n).__name__ == ctor:
                v = getattr(n, fld)
                kids = [x for x in (v if isinstance(v, list) else [v]) if isinstance(x, ast.AST)]
                missing = [type(k).__name__ for k in kids if not hasattr(k, "region")]
                return bool(missing), f"{ctor}.{fld}: child nodes without .region: {missing} (of {len(kids)})"
        return False, "constructor not found"
    lit = LITERAL_CASES[key]
    src = f"x = {lit}\n"
    tree = patchedast.get_patched_ast(src, True)
    const = next(n for n in ast.walk(tree) if isinstance(n, ast.Constant))
    s, e = const.region
    return src[s:e] != lit, f"literal {lit!r}: Constant.region text = {src[s:e]!r}"


def main():
    keys = sys.argv[1:] or sorted(list(FIELD_CASES) + list(LITERAL_CASES))
    bad = 0
    for k in keys:
        try:
            rep, msg = run(k)
        except Exception as ex:
            rep, msg = True, f"rope raised {type(ex).__name__}: {ex}"
        print(("REPRODUCED " if rep else "NOT-REPRODUCED ") + k + " :: " + msg)
        bad += not rep
    return 1 if bad else 0


if __name__ == "__main__":
    sys.exit(main())
