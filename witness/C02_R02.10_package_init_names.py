"""R02.10: a name bound in a package's __init__.py hides the submodule of the same name
(`from .render import render` rebinds pkg.render to the function).  Before the repair rope resolved
`from pkg import render` to the submodule, so the uses in client modules were missing from the function's occurrences."""
import os, shutil, sys, tempfile
sys.path.insert(0, os.environ.get("ROPE", "/repo"))
import warnings; warnings.simplefilter("ignore")
from rope.base.project import Project
from rope.contrib import findit
d = tempfile.mkdtemp()
def w(p, s):
    p = os.path.join(d, p); os.makedirs(os.path.dirname(p), exist_ok=True); open(p, "w").write(s)
try:
    w("pkg/__init__.py", "from .render import render\n")
    w("pkg/render.py", "def render():\n    return 1\n")
    w("use.py", "from pkg import render\nprint(render())\n")
    pr = Project(d, ropefolder=None)
    r = pr.get_resource("pkg/render.py")
    occ = sorted((o.resource.path, o.offset) for o in findit.find_occurrences(pr, r, r.read().index("render")))
    print(occ)
    pr.close()
    sys.exit(0 if ("use.py", 16) in occ and ("use.py", 29) in occ else 1)
finally:
    shutil.rmtree(d)
