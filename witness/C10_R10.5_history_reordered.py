"""F-C10-3: History.undo(change) reorders the undo list before the fallible undo."""
import tempfile, shutil
from rope.base.project import Project
from rope.base import change
from rope.base.fscommands import FileSystemCommands
class Faulty(FileSystemCommands):
    fail = False
    def write(self, path, data):
        if self.fail and path.endswith("a.py"):
            raise OSError("injected write fault")
        super().write(path, data)
root = tempfile.mkdtemp()
fs = Faulty()
p = Project(root, fscommands=fs)
a = p.root.create_file("a.py"); x = p.root.create_file("x.py")
def mk(name, res, text):
    cs = change.ChangeSet(name); cs.add_change(change.ChangeContents(res, text)); return cs
A, X, B = mk("A", a, "1\n"), mk("X", x, "2\n"), mk("B", a, "3\n")
for c in (A, X, B): p.do(c)
before = [c.description for c in p.history.undo_list]
fs.fail = True
try:
    p.history.undo(A)
except OSError as e:
    print("error reported:", e)
after = [c.description for c in p.history.undo_list]
print(before, "->", after)
ok = before == after
print("HISTORY UNCHANGED" if ok else "VIOLATION: undo list reordered by a failed undo")
shutil.rmtree(root)
raise SystemExit(0 if ok else 1)
