"""R20.19 = R09.14: the word finder clamped the end of the word after an imported name to len(code) and then read the character at
that offset.  In a module whose LAST line is `from m import x` (no final newline) go-to-definition, get_doc and Rename on `x` ended
in IndexError; likewise `import m` on the last line."""
import os, shutil, sys, tempfile
sys.path.insert(0, os.environ.get("ROPE", "/repo"))
import warnings; warnings.simplefilter("ignore")
from rope.base import exceptions
from rope.base.project import Project
from rope.contrib import codeassist, findit
from rope.refactor.rename import Rename

bad = 0
d = tempfile.mkdtemp()
try:
    pr = Project(d, ropefolder=None)
    pr.root.create_file("model.py").write("x = 1\ny = 2\n")
    r = pr.root.create_file("a.py")
    for src in ("from model import x", "from model import (x,\n    y)", "import model", "from model import x as a"):
        r.write(src)
        for off in range(len(src) + 1):
            for fn in (codeassist.get_definition_location, findit.find_definition, codeassist.get_doc):
                try:
                    fn(pr, src, off, r)
                except exceptions.RopeError:
                    pass
                except Exception as e:
                    print("BAD", fn.__name__, repr(src), off, type(e).__name__, e)
                    bad += 1
            if off < len(src):
                try:
                    Rename(pr, r, off).get_changes("zz")
                except exceptions.RopeError:
                    pass
                except Exception as e:
                    print("BAD Rename", repr(src), off, type(e).__name__, e)
                    bad += 1
    src = "from model import x"
    r.write(src)
    loc = codeassist.get_definition_location(pr, src, len(src) - 1, r)
    ok = loc[0] is not None and loc[0].path == "model.py" and loc[1] == 1
    print("OK " if ok else "BAD", "definition of x:", loc)
    bad += not ok
    pr.close()
finally:
    shutil.rmtree(d)
print("ok" if not bad else f"{bad} failure(s)")
sys.exit(1 if bad else 0)
