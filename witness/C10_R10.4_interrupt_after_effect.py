"""F-C10-2: task stopped between a primitive change's effect and finished_job:
the change stays applied, is not in `done`, and is not rolled back."""
import os, tempfile, shutil
from rope.base.project import Project
from rope.base import change, taskhandle, exceptions
from rope.base.resourceobserver import ResourceObserver
root = tempfile.mkdtemp()
p = Project(root)
a = p.root.create_file("a.py"); a.write("x=1\n")
b = p.root.create_file("b.py"); b.write("y=1\n")
handle = taskhandle.TaskHandle("t")
n = [0]
def changed(res):
    n[0] += 1
    if n[0] == 1:
        handle.stop()          # stop right after the first write's notification
p.add_observer(ResourceObserver(changed=changed))
cs = change.ChangeSet("t")
cs.add_change(change.ChangeContents(a, "x=2\n"))
cs.add_change(change.ChangeContents(b, "y=2\n"))
try:
    p.do(cs, handle)
except exceptions.InterruptedTaskError as e:
    print("error reported:", type(e).__name__)
print("a.py:", repr(a.read()), "b.py:", repr(b.read()), "undo_list:", p.history.undo_list)
ok = a.read() == "x=1\n" and b.read() == "y=1\n"
print("TREE RESTORED" if ok else "VIOLATION: a.py left modified after a reported failure")
shutil.rmtree(root)
raise SystemExit(0 if ok else 1)
