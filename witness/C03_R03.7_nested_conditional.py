"""R03.7: after an inner conditional block the rest of the enclosing conditional block was analysed as unconditional."""
import tempfile, shutil
from rope.base.project import Project
from rope.refactor.extract import ExtractMethod
root = tempfile.mkdtemp(); p = Project(root); m = p.root.create_file("m.py")
src = "def f(a, b):\n    x = 0\n    if a:\n        if b:\n            pass\n        x = 1\n    return x\nprint(f(False, False), f(True, False))\n"
m.write(src)
s = src.index("    if a:"); e = src.index("    return x")
p.do(ExtractMethod(p, m, s, e - 1).get_changes("g"))
print(m.read())
try: exec(m.read(), {})
except Exception as ex: print("BROKEN:", type(ex).__name__, ex)
p.close(); shutil.rmtree(root)
