"""C06h21: a call of the changed function nested in an argument of another call
of the same function -- f(f(1, 2), 3) -- is rewritten into garbage.

ChangeSignature rewrites every call as one text replacement "primary start ..
closing paren".  The outer call f(f(1, 2), 3) and the inner call f(1, 2) are
two occurrences whose replacement regions overlap; both replacements are put
into one ChangeCollector, which assumes disjoint regions.  The outer
replacement is built from the ORIGINAL text of its arguments (the inner call is
not updated in it), then the inner replacement is appended after it and the
tail of the outer call is copied a second time.

Oracle (independent of rope): the module is run with the interpreter before
and after the refactoring; its output must not change.

exit 0: property holds, exit 1: violated.
"""
import os as _os, sys as _sys; _sys.path.insert(0, _os.environ.get("ROPE", "/repo"))  # the tree under test
import ast
import os
import shutil
import subprocess
import sys
import tempfile

from rope.base.project import Project
from rope.refactor.change_signature import ArgumentReorderer, ChangeSignature

SOURCE = """\
def f(a, b):
    return a - b
print(f(f(1, 2), 3))
"""


def run_module(path):
    proc = subprocess.run(
        [sys.executable, path], capture_output=True, text=True, cwd=os.path.dirname(path)
    )
    err = proc.stderr.strip().splitlines()[-1:] if proc.returncode else []
    return proc.returncode, proc.stdout, err


def main():
    root = tempfile.mkdtemp(prefix="c06h21_")
    try:
        project = Project(root, ropefolder=None)
        path = os.path.join(root, "m.py")
        with open(path, "w") as handle:
            handle.write(SOURCE)
        resource = project.get_resource("m.py")
        before = run_module(path)

        offset = SOURCE.index("f(a, b)")
        changes = ChangeSignature(project, resource, offset).get_changes(
            [ArgumentReorderer([1, 0])]
        )
        project.do(changes)
        project.close()

        with open(path) as handle:
            new_source = handle.read()
        after = run_module(path)

        print("--- before")
        print(SOURCE)
        print("--- after ArgumentReorderer([1, 0]) on f")
        print(new_source)
        print("run before:", before)
        print("run after: ", after)
        try:
            ast.parse(new_source)
            parses = True
        except SyntaxError as exc:
            parses = False
            print("the rewritten module is not Python any more:", exc)

        if parses and before == after:
            print("OK: every call still passes the same values")
            return 0
        print("VIOLATION: the nested call f(f(1, 2), 3) was not rewritten consistently")
        return 1
    finally:
        shutil.rmtree(root, ignore_errors=True)


if __name__ == "__main__":
    sys.exit(main())
