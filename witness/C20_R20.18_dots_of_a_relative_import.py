"""R20.18 = R09.13: completion and the lookups answer (or refuse with a rope error) at every offset of a valid module.  The two
`_find_module` helpers counted the leading dots of a module name without looking at its length: for `from . import name` the
name is "." -- code_assist after `from . import mo`, and go-to-definition / get_doc / find_definition on the dot, ended in
IndexError."""
import os, shutil, sys, tempfile
sys.path.insert(0, os.environ.get("ROPE", "/repo"))
import warnings; warnings.simplefilter("ignore")
from rope.base import exceptions
from rope.base.project import Project
from rope.contrib import codeassist, findit

bad = 0
d = tempfile.mkdtemp()
try:
    pr = Project(d, ropefolder=None)
    pkg = pr.root.create_folder("pkg")
    pkg.create_file("__init__.py").write("")
    pkg.create_file("model.py").write("x = 1\n")
    r = pkg.create_file("a.py")
    src = "from . import mo"
    r.write(src)
    try:
        names = [p.name for p in codeassist.code_assist(pr, src, len(src), r)]
        ok = "model" in names
        print("OK " if ok else "BAD", "code_assist after `from . import mo`:", names)
        bad += not ok
    except Exception as e:
        print("BAD code_assist after `from . import mo`:", type(e).__name__, e)
        bad += 1
    src = "from . import model\nprint(model.x)\n"
    r.write(src)
    for fn in (codeassist.get_definition_location, findit.find_definition, codeassist.get_doc):
        for off in range(src.index("\n")):
            try:
                fn(pr, src, off, r)
            except exceptions.RopeError:
                pass
            except Exception as e:
                print("BAD", fn.__name__, "at offset", off, repr(src[off]), type(e).__name__, e)
                bad += 1
    pr.close()
finally:
    shutil.rmtree(d)
print("ok" if not bad else f"{bad} internal error(s)")
sys.exit(1 if bad else 0)
