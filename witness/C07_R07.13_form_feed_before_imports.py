"""R07.13 (=R14.6 for the import rewriter): import statements are located by the interpreter's line numbers; the module
text must be cut into lines the same way (at '\\n' only).  With a form feed or U+2028 in a comment above the imports,
str.splitlines() counted extra lines and organize_imports duplicated imports / lost header text."""
import os, shutil, subprocess, sys, tempfile
sys.path.insert(0, os.environ.get("ROPE", "/repo"))
import warnings; warnings.simplefilter("ignore")
from rope.base.project import Project
from rope.refactor.importutils import ImportOrganizer
bad = 0
for sep in ("\x0c", " ", "\x1c"):
    d = tempfile.mkdtemp()
    try:
        src = f"# header one{sep} still the same line\n# header two\nimport sys\nimport os\nimport json\n\nprint(os.sep, len(sys.argv))\n"
        open(os.path.join(d, "m.py"), "w", encoding="utf-8").write(src)
        before = subprocess.run([sys.executable, "m.py"], cwd=d, capture_output=True, text=True)
        pr = Project(d, ropefolder=None)
        ch = ImportOrganizer(pr).organize_imports(pr.get_resource("m.py"))
        new = ch.changes[0].new_contents if ch else src
        pr.close()
        # oracle: the same module with an ordinary space instead of the separator
        open(os.path.join(d, "plain.py"), "w", encoding="utf-8").write(src.replace(sep, " "))
        pr = Project(d, ropefolder=None)
        ch2 = ImportOrganizer(pr).organize_imports(pr.get_resource("plain.py"))
        pr.close()
        expect = (ch2.changes[0].new_contents if ch2 else src.replace(sep, " ")).replace("one  still", f"one{sep} still")
        ok = new == expect
        print(repr(sep), "OK" if ok else "DIFFERENT: " + repr(new))
        bad += not ok
    finally:
        shutil.rmtree(d)
sys.exit(1 if bad else 0)
