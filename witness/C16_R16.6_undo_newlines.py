"""R16.6: undo of a content change restores the bytes, including the newline convention of the replaced text.  The new
text may have no line break at all, so the convention cannot be detected again at undo time: before the repair a CRLF
file came back with LF."""
import os, shutil, sys, tempfile
sys.path.insert(0, os.environ.get("ROPE", "/repo"))
import warnings; warnings.simplefilter("ignore")
from rope.base.project import Project
from rope.base.change import ChangeContents, ChangeSet
bad = 0
for orig in (b"x = 1\r\ny = 2\r\n", b"x = 1\ry = 2\r", b"x = 1\ny = 2\n"):
    d = tempfile.mkdtemp()
    try:
        p = os.path.join(d, "m.py"); open(p, "wb").write(orig)
        pr = Project(d)
        cs = ChangeSet("c"); cs.add_change(ChangeContents(pr.get_resource("m.py"), "z = 3"))
        pr.do(cs); pr.history.undo()
        got = open(p, "rb").read()
        print(orig, "->", got, "OK" if got == orig else "DIFFERENT"); bad += got != orig
        pr.history.redo(); pr.history.undo()
        got = open(p, "rb").read(); bad += got != orig
        pr.close()
    finally:
        shutil.rmtree(d)
sys.exit(1 if bad else 0)
