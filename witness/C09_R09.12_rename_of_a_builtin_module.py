"""R09.12 = R01.21: a request rope cannot honour is refused with one of rope's errors.  Rename at a name bound to a builtin or
extension module (`import sys` ... `sys`): the module object has no resource, get_changes() ended in AttributeError."""
import os, shutil, sys, tempfile
sys.path.insert(0, os.environ.get("ROPE", "/repo"))
import warnings; warnings.simplefilter("ignore")
from rope.base import exceptions
from rope.base.project import Project
from rope.refactor.rename import Rename

bad = 0
for src, marker in (("import sys\nprint(sys.path)\n", "sys"), ("import math as m\nprint(m.pi)\n", "m\n"), ("import time\nx = time.time()\n", "time.")):
    d = tempfile.mkdtemp()
    try:
        pr = Project(d, ropefolder=None)
        m = pr.root.create_file("m.py")
        m.write(src)
        try:
            pr.do(Rename(pr, m, src.index(marker)).get_changes("zz"))
            out = m.read()
            try:
                exec(compile(out, "m", "exec"), {})
                print("OK  renamed, still runs:", repr(out))
            except Exception as e:
                print("BAD renamed into a broken program:", repr(out), type(e).__name__)
                bad += 1
        except exceptions.RopeError as e:
            print("OK  refused:", type(e).__name__, e)
        except Exception as e:
            print("BAD internal error:", type(e).__name__, e)
            bad += 1
        pr.close()
    finally:
        shutil.rmtree(d)
sys.exit(1 if bad else 0)
