"""Witness for the C07 R07.1 findings: organize-imports deletes an import that is used only in a field Python
evaluates in the enclosing scope (default, decorator, annotation, base, keyword) when the body binds a local of the same name.
usage: /venv/bin/python witness/C07_organize_imports.py [key ...]"""
import sys, tempfile, shutil
from rope.base.project import Project
from rope.refactor.importutils import ImportOrganizer
CASES = {
    "R07.1|FunctionDef.args": "import os\n\n\ndef f(x=os.sep):\n    os = 3\n    return os, x\n\n\nprint(f())\n",
    "R07.1|FunctionDef.decorator_list": "import functools\n\n\n@functools.lru_cache(None)\ndef f():\n    functools = 3\n    return functools\n\n\nprint(f())\n",
    "R07.1|FunctionDef.returns": "import os\n\n\ndef f() -> os.PathLike:\n    os = 3\n    return os\n\n\nprint(f())\n",
    "R07.1|ClassDef.bases": "import collections\n\n\nclass C(collections.OrderedDict):\n    collections = 3\n\n\nprint(C.collections)\n",
    "R07.1|ClassDef.decorator_list": "import functools\n\n\n@functools.total_ordering\nclass C:\n    functools = 3\n    def __lt__(self, o):\n        return True\n    def __eq__(self, o):\n        return True\n\n\nprint(C.functools)\n",
    "R07.1|ClassDef.keywords": "import abc\n\n\nclass C(metaclass=abc.ABCMeta):\n    abc = 3\n\n\nprint(C.abc)\n",
}
def run(key):
    root = tempfile.mkdtemp(); p = Project(root)
    m = p.root.create_file("m.py"); src = CASES[key]; m.write(src)
    ch = ImportOrganizer(p).organize_imports(m)
    out = src
    if ch is not None:
        p.do(ch); out = m.read()
    try:
        exec(compile(out, "m", "exec"), {}); ok = True; msg = "module still runs"
    except Exception as e:
        ok = False; msg = f"after organize imports the module raises {type(e).__name__}: {e} (first line now {out.splitlines()[0]!r})"
    p.close(); shutil.rmtree(root)
    return ok, msg
bad = 0
for k in (sys.argv[1:] or sorted(CASES)):
    ok, msg = run(k)
    print(("NOT-REPRODUCED " if ok else "REPRODUCED ") + k + " :: " + msg); bad += ok
sys.exit(1 if bad else 0)
