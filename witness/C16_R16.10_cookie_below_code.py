"""R16.10: which line declares the encoding is decided like the interpreter does.  A `# coding:` comment on line 2 below
a line of CODE is not a declaration (tokenize.detect_encoding -> utf-8); rope took it for one, decoded the UTF-8 file as
latin-1 and could not write a euro sign back."""
import io, os, shutil, sys, tempfile, tokenize
sys.path.insert(0, os.environ.get("ROPE", "/repo"))
import warnings; warnings.simplefilter("ignore")
from rope.base.project import Project
bad = 0
cases = {
    "code_then_cookie": 'import os\n# coding: latin-1\ns = "€"\n'.encode("utf-8"),
    "shebang_then_cookie": '#!/usr/bin/python\n# coding: latin-1\ns = "\xe9"\n'.encode("latin-1"),
    "blank_then_cookie": '\n# coding: latin-1\ns = "\xe9"\n'.encode("latin-1"),
}
for name, data in cases.items():
    d = tempfile.mkdtemp()
    try:
        open(os.path.join(d, "m.py"), "wb").write(data)
        enc = tokenize.detect_encoding(io.BytesIO(data).readline)[0]
        pr = Project(d, ropefolder=None)
        r = pr.get_resource("m.py")
        try:
            text = r.read()
            ok = text == data.decode(enc)
            r.write(text + "t = 1\n")
            ok = ok and open(os.path.join(d, "m.py"), "rb").read() == data + b"t = 1\n"
            print(name, enc, "OK" if ok else "text or bytes differ from the interpreter's reading")
        except Exception as e:
            ok = False
            print(name, enc, "failed:", type(e).__name__, e)
        pr.close()
        bad += not ok
    finally:
        shutil.rmtree(d)
sys.exit(1 if bad else 0)
