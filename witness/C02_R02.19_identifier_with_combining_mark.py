"""R02.19 / R14.17 / R03.16 / R20.13: rope took `c.isalnum() or c == "_"` for "c is part of an identifier".  PEP 3131 allows
more after the first character: combining marks (Mn, Mc) and connectors -- every Devanagari vowel sign, Hebrew point,
Thai vowel.  `"देव".isidentifier()` is True, `"े".isalnum()` is False.  Consequences on the unchanged tree: the word at the
offset of दे is `द`; a name that ENDS in a mark is never found (`\\b` needs a word character next to the boundary); and
renaming the variable `द` also rewrote the first letter of the different variable `देव`."""
import os, shutil, sys, tempfile
sys.path.insert(0, os.environ.get("ROPE", "/repo"))
import warnings; warnings.simplefilter("ignore")
from rope.base import worder
from rope.base.project import Project
from rope.refactor.rename import Rename


def rename(src, offset, new):
    d = tempfile.mkdtemp()
    try:
        open(os.path.join(d, "m.py"), "w", encoding="utf-8").write(src)
        pr = Project(d, ropefolder=None)
        r = pr.get_resource("m.py")
        try:
            pr.do(Rename(pr, r, offset).get_changes(new))
            return r.read()
        except Exception as e:
            return "ERR %s: %s" % (type(e).__name__, e)
        finally:
            pr.close()
    finally:
        shutil.rmtree(d)


bad = 0
w = worder.Worder("देव = 1\n").get_word_at(0)
print("word at 0:", w); bad += w != "देव"
for src, off, new, want in (
    ("द = 1\nदेव = 2\nprint(द, देव)\n", 0, "x", "x = 1\nदेव = 2\nprint(x, देव)\n"),
    ("दे = 1\nprint(दे)\n", 0, "x", "x = 1\nprint(x)\n"),
):
    got = rename(src, off, new)
    ok = got == want
    print("OK" if ok else "WRONG", repr(got)); bad += not ok
# C03: a selection that cuts the identifier between letter and mark must be refused; C20: the typed prefix is the whole word
from rope.contrib import codeassist
from rope.refactor.extract import ExtractVariable
d = tempfile.mkdtemp()
try:
    pr = Project(d, ropefolder=None)
    src = "देव = 1\nx = देव + 2\n"
    open(os.path.join(d, "m.py"), "w", encoding="utf-8").write(src)
    r = pr.get_resource("m.py")
    s = src.index("देव + 2")
    try:
        pr.do(ExtractVariable(pr, r, s, s + 1).get_changes("v"))
        print("WRONG extract accepted a selection inside an identifier:", repr(r.read())); bad += 1
    except Exception as e:
        print("OK extract refused:", type(e).__name__)
    src2 = "देवता = 1\nदेव"
    names = [p.name for p in codeassist.code_assist(pr, src2, len(src2))]
    start = codeassist.starting_offset(src2, len(src2))
    ok = names == ["देवता"] and start == src2.rindex("देव")
    print("OK" if ok else "WRONG", "completion:", names, start); bad += not ok
    pr.close()
finally:
    shutil.rmtree(d)
sys.exit(1 if bad else 0)
