"""C11: undo must restore the tree exactly.

do(MoveResource(x.py -> y.py)) where y.py already exists is neither refused
nor undoable: the move silently replaces y.py, and undo only moves the file
back, so the original y.py is lost.
"""
import os as _os, sys as _sys; _sys.path.insert(0, _os.environ.get("ROPE", "/repo"))  # the tree under test
import os
import shutil
import sys
import tempfile

from rope.base import change
from rope.base.project import Project


def snapshot(root):
    out = {}
    for d, dirs, files in os.walk(root):
        dirs[:] = [x for x in dirs if x != ".ropeproject"]
        for x in dirs:
            out[os.path.relpath(os.path.join(d, x), root) + "/"] = None
        for f in files:
            path = os.path.join(d, f)
            with open(path, "rb") as handle:
                out[os.path.relpath(path, root)] = handle.read()
    return out


def main():
    root = tempfile.mkdtemp()
    violated = False
    try:
        with open(os.path.join(root, "x.py"), "w") as f:
            f.write("x = 1\n")
        with open(os.path.join(root, "y.py"), "w") as f:
            f.write("y = 2\n")
        project = Project(root, ropefolder=None)
        before = snapshot(root)
        print("before      :", before)

        changes = change.ChangeSet("move x.py onto y.py")
        changes.add_change(change.MoveResource(project.get_file("x.py"), "y.py"))
        try:
            project.do(changes)  # same as project.get_file('x.py').move('y.py')
        except Exception as e:
            after = snapshot(root)
            print("refused     :", repr(e))
            print("tree intact :", after == before)
            violated = after != before or bool(project.history.undo_list)
        else:
            print("after do    :", snapshot(root))
            print("undo_list   :", len(project.history.undo_list))
            project.history.undo()
            after = snapshot(root)
            print("after undo  :", after)
            if after != before:
                violated = True
                lost = sorted(set(before) - set(after))
                print("VIOLATION: undo did not restore the tree; lost:", lost)
        project.close()
    finally:
        shutil.rmtree(root)
    print("property", "VIOLATED" if violated else "holds")
    return 1 if violated else 0


if __name__ == "__main__":
    sys.exit(main())
