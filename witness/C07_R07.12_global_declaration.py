"""R07.12: `global os` inside a function makes the module's `os` a name of the function scope; using it there is a use
of the module-level import.  Before the repair organize_imports took it for a local name and removed `import os`."""
import os, shutil, subprocess, sys, tempfile
sys.path.insert(0, os.environ.get("ROPE", "/repo"))
import warnings; warnings.simplefilter("ignore")
from rope.base.project import Project
from rope.refactor.importutils import ImportOrganizer
d = tempfile.mkdtemp()
try:
    src = "import os\nimport sys\n\ndef f():\n    global os\n    return os.sep\n\nprint(f(), len(sys.argv))\n"
    open(os.path.join(d, "m.py"), "w").write(src)
    before = subprocess.run([sys.executable, "m.py"], cwd=d, capture_output=True, text=True)
    pr = Project(d, ropefolder=None)
    ch = ImportOrganizer(pr).organize_imports(pr.get_resource("m.py"))
    if ch is not None:
        pr.do(ch)
    pr.close()
    after = subprocess.run([sys.executable, "m.py"], cwd=d, capture_output=True, text=True)
    print(after.stdout.strip(), after.stderr.strip().splitlines()[-1:] )
    sys.exit(0 if (after.returncode == 0 and after.stdout == before.stdout) else 1)
finally:
    shutil.rmtree(d)
