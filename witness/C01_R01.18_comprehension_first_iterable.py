"""R01.18 = R02.23: the first iterable of a comprehension is evaluated in the scope that contains the comprehension.  rope
looked it up among the comprehension's own names: in `x = [1, 2]; print([x for x in x], x)` Rename of the module's `x` left
`in x` behind (NameError), Rename of the loop variable took the iterable along."""
import os, shutil, subprocess, sys, tempfile
sys.path.insert(0, os.environ.get("ROPE", "/repo"))
import warnings; warnings.simplefilter("ignore")
from rope.base.project import Project
from rope.refactor.rename import Rename

CASES = [
    ("x = [1, 2]\nprint([x for x in x], x)\n", "x"),                       # the module's x
    ("x = [1, 2]\nprint([x for x in x], x)\n", "x for"),                   # the loop variable
    ("x = [[1], [2]]\nprint([y for x in x for y in x], x)\n", "x"),        # only the FIRST iterable is outside
    ("x = [1, 2]\nprint([x for x in [x for x in x]], x)\n", "x"),          # a display in the first iterable of another
    ("def f(x):\n    return {x: 1 for x in x}\nprint(f([1, 2]))\n", "x"),  # a parameter
    ("x = [1, 2]\ndef f(a=[x for x in x]):\n    return a\nprint(f(), x)\n", "x"),
]
bad = 0
for src, marker in CASES:
    d = tempfile.mkdtemp()
    try:
        pr = Project(d, ropefolder=None)
        m = pr.root.create_file("m.py")
        m.write(src)
        pr.do(Rename(pr, m, src.index(marker)).get_changes("zz"))
        out = m.read()
        pr.close()
        r0 = subprocess.run([sys.executable, "-c", src], capture_output=True, text=True)
        r1 = subprocess.run([sys.executable, "-c", out], capture_output=True, text=True)
        ok = (r0.stdout, r0.returncode) == (r1.stdout, r1.returncode)
        print("OK " if ok else "BAD", repr(out), r1.stderr.strip().splitlines()[-1:] if not ok else "")
        bad += not ok
    finally:
        shutil.rmtree(d)
sys.exit(1 if bad else 0)
