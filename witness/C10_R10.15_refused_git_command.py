"""C10 / R10.15: a version-control command that is refused must count as FAILED.

A project in a git working tree (rope picks GITCommands by itself).  The composite change

    ChangeContents c.py  "x = 1\n" -> "x = 2\n"
    MoveResource   a.py -> b.py          (a.py was never `git add`ed: `git mv` refuses it)

is all-or-nothing: either both happen, or an error is reported and the tree is as before.
Before fix 94f9db6 the exit status of `git mv` was dropped: project.do returned normally, c.py was
changed, a.py was still there and b.py was not -- half a change, no error, and recorded in the history.

exit 0: all or nothing;  exit 1: half a change without an error.
"""
import os as _os, sys as _sys; _sys.path.insert(0, _os.environ.get("ROPE", "/repo"))  # the tree under test
import os
import shutil
import subprocess
import sys
import tempfile

from rope.base import change
from rope.base.project import Project


def tree(root):
    out = {}
    for name in sorted(os.listdir(root)):
        if name != ".git" and os.path.isfile(os.path.join(root, name)):
            out[name] = open(os.path.join(root, name)).read()
    return out


def main():
    root = tempfile.mkdtemp(prefix="c10-r15-")
    try:
        subprocess.run(["git", "init", "-q"], cwd=root, check=True, stdout=subprocess.DEVNULL, stderr=subprocess.DEVNULL)
        for name, text in (("a.py", "a = 1\n"), ("c.py", "x = 1\n")):
            with open(os.path.join(root, name), "w") as f:
                f.write(text)
        subprocess.run(["git", "add", "c.py"], cwd=root, check=True)  # a.py stays untracked
        project = Project(root, ropefolder=None)
        print("commands:", type(project.fscommands).__name__)
        before = tree(root)
        changes = change.ChangeSet("edit and move")
        changes.add_change(change.ChangeContents(project.get_file("c.py"), "x = 2\n"))
        changes.add_change(change.MoveResource(project.get_file("a.py"), "b.py"))
        reported = None
        try:
            project.do(changes)
        except Exception as e:  # noqa
            reported = e
        after = tree(root)
        project.close()
        print("before:", before)
        print("after :", after, "reported:", repr(reported))
        whole = {"b.py": "a = 1\n", "c.py": "x = 2\n"}
        if reported is None and after == whole:
            print("holds: the whole change was made")
            return 0
        if reported is not None and after == before:
            print("holds: the failure was reported and the tree is as before")
            return 0
        print("VIOLATED: half a change" + ("" if reported else ", and no error was reported"))
        return 1
    finally:
        shutil.rmtree(root, ignore_errors=True)


sys.exit(main())
