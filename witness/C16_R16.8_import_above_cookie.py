"""R16.8: a new import is placed below the module's shebang, coding line and docstring.  With the preference
pull_imports_to_top off and a module that has no import yet, add_import inserted on line 1: the coding line slid to
line 3, where PEP 263 no longer honours it, and the shebang was no longer first."""
import os, shutil, sys, tempfile
sys.path.insert(0, os.environ.get("ROPE", "/repo"))
import warnings; warnings.simplefilter("ignore")
from rope.base.project import Project
from rope.refactor import importutils
bad = 0
for pull in (True, False):
    d = tempfile.mkdtemp()
    try:
        src = "#!/usr/bin/env python\n# -*- coding: latin-1 -*-\n\"\"\"Doc caf\xe9.\"\"\"\n\nX = 'na\xefve'\n"
        open(os.path.join(d, "m.py"), "wb").write(src.encode("latin-1"))
        open(os.path.join(d, "other.py"), "w").write("def g():\n    return 1\n")
        pr = Project(d, ropefolder=None)
        pr.prefs.set("pull_imports_to_top", pull)
        new, _ = importutils.add_import(pr, pr.get_pymodule(pr.get_resource("m.py")), "other", "g")
        pr.close()
        ok = new.startswith("#!/usr/bin/env python\n# -*- coding: latin-1 -*-\n\"\"\"Doc")
        print(pull, "OK" if ok else "import placed above the module header: " + repr(new[:60]))
        bad += not ok
    finally:
        shutil.rmtree(d)
sys.exit(1 if bad else 0)
