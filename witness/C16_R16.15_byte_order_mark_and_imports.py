"""C16: a UTF-8 file that starts with a byte order mark and whose first
statement is an import: organize_imports treats the BOM as text of that first
import statement.  When the statement is moved (sorted below another import)
the BOM moves with it into the middle of the file; when it is removed (unused)
the BOM is dropped.  Either way bytes that are not part of the edit change, and
in the first case the module no longer compiles.

exit 0: property holds, exit 1: violated.
"""
import os as _os, sys as _sys; _sys.path.insert(0, _os.environ.get("ROPE", "/repo"))  # the tree under test
import os
import shutil
import subprocess
import sys
import tempfile

from rope.base.project import Project
from rope.refactor.importutils import ImportOrganizer

BOM = b"\xef\xbb\xbf"


def run(path):
    proc = subprocess.run(
        [sys.executable, path], capture_output=True, text=True, encoding="utf-8"
    )
    return proc.returncode, proc.stdout, proc.stderr.strip().splitlines()[-1:]


def organize(body):
    """Write BOM + body to a fresh project, organize imports, report"""
    root = tempfile.mkdtemp()
    project = Project(root, ropefolder=None)
    try:
        path = os.path.join(root, "m.py")
        before = BOM + body.encode("utf-8")
        with open(path, "wb") as f:
            f.write(before)
        ran_before = run(path)

        resource = project.get_resource("m.py")
        # sanity: the plain round trip is fine
        resource.write(resource.read())
        with open(path, "rb") as f:
            assert f.read() == before

        changes = ImportOrganizer(project).organize_imports(resource)
        if changes is not None:
            project.do(changes)
        with open(path, "rb") as f:
            after = f.read()
        ran_after = run(path)
    finally:
        project.close()
        shutil.rmtree(root)

    print("before:", before)
    print("after: ", after)
    print("run before:", ran_before)
    print("run after: ", ran_after)
    ok = True
    if not after.startswith(BOM):
        print("VIOLATION: the byte order mark at the start of the file is gone")
        ok = False
    if BOM in after[len(BOM):] or (not after.startswith(BOM) and BOM in after):
        print("VIOLATION: a byte order mark now sits in the middle of the file")
        ok = False
    if ran_after[:2] != ran_before[:2]:
        print("VIOLATION: the module no longer runs as before")
        ok = False
    print()
    return ok


results = [
    # both imports used; sorting puts `import os` first
    organize("import sys\nimport os\nprint(os.sep == '', sys.maxsize > 0)\n"),
    # the first import is unused and removed
    organize("import sys\nimport os\nprint(os.sep == '')\n"),
]
if all(results):
    print("property holds")
    sys.exit(0)
print("property VIOLATED")
sys.exit(1)
