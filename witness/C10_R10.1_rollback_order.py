import os, tempfile, shutil
from rope.base.project import Project
from rope.base import change
root = tempfile.mkdtemp()
p = Project(root)
a = p.root.create_file("a.py"); a.write("x=1\n")
cs = change.ChangeSet("t")
cs.add_change(change.CreateFolder(p.root, "pkg"))
cs.add_change(change.MoveResource(a, "pkg/a.py"))
cs.add_change(change.CreateFolder(p.get_folder("nonexist"), "x"))  # fails: parent missing
try:
    p.do(cs)
except Exception as e:
    print("error:", type(e).__name__, e)
print(sorted(os.listdir(root)))
assert os.path.exists(os.path.join(root,"a.py")), "a.py LOST"
print("OK")
shutil.rmtree(root)
