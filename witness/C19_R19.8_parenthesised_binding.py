"""R19.8: the code bound to a wildcard is inserted into the goal so that it keeps its meaning.  The region of `a + b`
in `(a + b) * c` does not contain the parentheses; before the repair restructuring `${x} * ${y}` -> `${y} * ${x}` produced
`c * a + b`."""
import os, shutil, subprocess, sys, tempfile
sys.path.insert(0, os.environ.get("ROPE", "/repo"))
import warnings; warnings.simplefilter("ignore")
from rope.base.project import Project
from rope.refactor.restructure import Restructure
d = tempfile.mkdtemp()
try:
    src = "a, b, c = 2, 3, 5\nr1 = (a + b) * c\nr2 = (a if b else c) * c\nr3 = f = (lambda: a)() * c\nr4 = (not a) * c\nprint(r1, r2, r3, r4)\n"
    open(os.path.join(d, "m.py"), "w").write(src)
    before = subprocess.run([sys.executable, "m.py"], cwd=d, capture_output=True, text=True)
    pr = Project(d, ropefolder=None)
    pr.do(Restructure(pr, "${x} * ${y}", "${y} * ${x}").get_changes())
    pr.close()
    new = open(os.path.join(d, "m.py")).read()
    after = subprocess.run([sys.executable, "m.py"], cwd=d, capture_output=True, text=True)
    print(new); print(before.stdout.strip(), "|", after.stdout.strip(), after.stderr.strip().splitlines()[-1:])
    sys.exit(0 if after.returncode == 0 and after.stdout == before.stdout else 1)
finally:
    shutil.rmtree(d)
