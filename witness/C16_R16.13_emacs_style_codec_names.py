"""R16.13: the interpreter normalises the declared codec name (tokenize._get_normal_name): `utf-8-unix`, `utf-8-sig`, `UTF_8_mac`
are utf-8, `latin-1-unix`, `iso-latin-1-dos` are iso-8859-1.  rope used the name as written: writing a file that declares
`utf-8-unix` raised LookupError (unknown encoding), and a file WITHOUT a byte order mark that declares `utf-8-sig` got one
prepended by every write -- even in front of a `#!` line."""
import os, shutil, sys, tempfile
sys.path.insert(0, os.environ.get("ROPE", "/repo"))
import warnings; warnings.simplefilter("ignore")
from rope.base.project import Project
bad = 0
for name in ("utf-8-unix", "utf-8-sig", "latin-1-unix"):
    d = tempfile.mkdtemp()
    try:
        enc = "latin-1" if name.startswith("latin") else "utf-8"
        data = f"#!/usr/bin/python\n# -*- coding: {name} -*-\nx = 'é'\n".encode(enc)
        open(os.path.join(d, "m.py"), "wb").write(data)
        compile(data, "m.py", "exec")  # the interpreter accepts the file
        pr = Project(d, ropefolder=None)
        r = pr.get_resource("m.py")
        try:
            r.write(r.read() + "y = 2\n")
            got = open(os.path.join(d, "m.py"), "rb").read()
            ok = got == data + b"y = 2\n"
            print(name, "OK" if ok else "bytes changed: %r" % got[:40])
        except Exception as e:
            ok = False
            print(name, "write failed:", type(e).__name__, e)
        pr.close()
        bad += not ok
    finally:
        shutil.rmtree(d)
sys.exit(1 if bad else 0)
