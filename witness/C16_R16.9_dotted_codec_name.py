"""R16.9: every codec name the interpreter knows can be declared.  `ansi_x3.4_1968` and `iso_646.irv_1991` (aliases of
ascii in encodings.aliases) contain a dot; _find_coding cut the name at the dot, so writing such a file through rope
raised LookupError: unknown encoding: ansi_x3."""
import os, shutil, sys, tempfile
sys.path.insert(0, os.environ.get("ROPE", "/repo"))
import warnings; warnings.simplefilter("ignore")
from rope.base.project import Project
bad = 0
for name in ("ansi_x3.4_1968", "iso_646.irv_1991", "iso8859_15", "shift_jis"):
    d = tempfile.mkdtemp()
    try:
        src = f"# -*- coding: {name} -*-\nx = 1\n"
        open(os.path.join(d, "m.py"), "wb").write(src.encode("ascii"))
        compile(src.encode("ascii"), "m.py", "exec")  # the interpreter accepts the declaration
        pr = Project(d, ropefolder=None)
        r = pr.get_resource("m.py")
        try:
            r.write(r.read() + "y = 2\n")
            ok = open(os.path.join(d, "m.py"), "rb").read() == (src + "y = 2\n").encode("ascii")
            print(name, "OK" if ok else "bytes differ")
        except Exception as e:
            ok = False
            print(name, "write failed:", type(e).__name__, e)
        pr.close()
        bad += not ok
    finally:
        shutil.rmtree(d)
sys.exit(1 if bad else 0)
