"""Witnesses for the C09 findings.
usage: /venv/bin/python witness/C09_effects.py [inline_method|inline_variable|method_object|fixmodnames|assert_flatten|assert_all]"""
import os, sys, tempfile, shutil, warnings
warnings.simplefilter("ignore")
from rope.base.project import Project
from rope.base import exceptions

def ext_project():
    root = tempfile.mkdtemp(); lib = tempfile.mkdtemp()
    open(os.path.join(lib, "extlib.py"), "w").write("CONST = 41 + 1\n\n\ndef helper(a):\n    b = a + 1\n    return b\n")
    p = Project(root, python_path=[lib])
    m = p.root.create_file("m.py")
    return p, m, root, lib

def snapshot(d):
    return {f: open(os.path.join(d, f)).read() for f in sorted(os.listdir(d)) if f.endswith(".py")}

def out_of_project(kind):
    p, m, root, lib = ext_project()
    before = snapshot(lib)
    try:
        if kind == "inline_method":
            from rope.refactor.inline import create_inline
            src = "import extlib\nx = extlib.helper(1)\n"; m.write(src)
            ch = create_inline(p, m, src.index("helper")).get_changes(only_current=True)
        elif kind == "inline_variable":
            from rope.refactor.inline import create_inline
            src = "import extlib\nx = extlib.CONST\n"; m.write(src)
            ch = create_inline(p, m, src.index("CONST")).get_changes(only_current=True)
        else:
            from rope.refactor.method_object import MethodObject
            src = "import extlib\nx = extlib.helper(1)\n"; m.write(src)
            ch = MethodObject(p, m, src.index("helper")).get_changes("Helper")
        listed = sorted(r.real_path for r in ch.get_changed_resources())
        outside = [r for r in listed if not r.startswith(os.path.realpath(root))]
        print(kind, "change set lists:", [os.path.basename(r) for r in listed], "outside project:", [os.path.basename(r) for r in outside])
        err = None
        try:
            p.do(ch)
        except Exception as e:
            err = f"{type(e).__name__}: {e}"
        changed = snapshot(lib) != before
        print("   performing raised:", err, "| library file modified on disk:", changed)
        bad = bool(outside) or changed
    except exceptions.RopeError as e:
        print(kind, "refused:", type(e).__name__, e); bad = False
    p.close(); shutil.rmtree(root); shutil.rmtree(lib)
    return bad

def fixmodnames():
    from rope.contrib.fixmodnames import FixModuleNames
    from rope.base.resourceobserver import ResourceObserver
    root = tempfile.mkdtemp(); p = Project(root)
    p.root.create_file("Mod.py").write("x = 1\n"); p.root.create_file("user.py").write("import Mod\nprint(Mod.x)\n")
    events = []
    p.add_observer(ResourceObserver(changed=lambda r: events.append(("changed", r.path)), moved=lambda a, b: events.append(("moved", a.path, b.path))))
    FixModuleNames(p).get_changes(fixer=str.lower)
    print("fixmodnames: disk events while only *computing* changes:", events)
    p.close(); shutil.rmtree(root)
    return bool(events)

def asserts(which):
    root = tempfile.mkdtemp(); p = Project(root); m = p.root.create_file("m.py")
    try:
        if which == "assert_flatten":
            from rope.refactor.extract import ExtractMethod
            src = "def f(ys):\n    a = [0]\n    r = [a[0] for a[0] in ys]\n    x = 1 + 2\n    return x, r\n"; m.write(src)
            s = src.index("1 + 2")
            ExtractMethod(p, m, s, s + 5).get_changes("g")
        else:
            from rope.refactor.importutils import ImportOrganizer
            src = "import os\n\n\ndef __all__():\n    pass\n"; m.write(src)
            ImportOrganizer(p).organize_imports(m)
        print(which, "no exception"); bad = False
    except exceptions.RopeError as e:
        print(which, "refused with rope error", type(e).__name__); bad = False
    except Exception as e:
        print(which, "raised internal", type(e).__name__, e); bad = True
    p.close(); shutil.rmtree(root)
    return bad

cases = sys.argv[1:] or ["inline_method", "inline_variable", "method_object", "fixmodnames", "assert_flatten", "assert_all"]
bad = 0
for c in cases:
    if c in ("inline_method", "inline_variable", "method_object"): b = out_of_project(c)
    elif c == "fixmodnames": b = fixmodnames()
    else: b = asserts(c)
    print(("VIOLATED " if b else "holds ") + c); bad += b
sys.exit(1 if bad else 0)
