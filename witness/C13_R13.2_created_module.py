"""R13.2 (module cache, created/validate): data concluded while an imported module did not exist must be forgotten when
the module appears.  `gadget = Gadget()` after `from extra import Gadget`: the long-lived project kept answering with
the attributes inferred before extra.py existed; a freshly opened project sees them."""
import os, shutil, sys, tempfile
sys.path.insert(0, os.environ.get("ROPE", "/repo"))
import warnings; warnings.simplefilter("ignore")
from rope.base.project import Project
from rope.contrib import generate

def attrs(pr):
    pm = pr.get_pymodule(pr.get_resource("user.py"))
    return sorted(a for a in pm["gadget"].get_object().get_attributes() if not a.startswith("__"))

bad = 0
for how in ("external edit + validate()", "created through rope"):
    d = tempfile.mkdtemp()
    try:
        open(os.path.join(d, "user.py"), "w").write("from extra import Gadget\ngadget = Gadget()\n")
        pr = Project(d, ropefolder=None)
        attrs(pr)
        body = "class Gadget:\n    def spin(self):\n        pass\n"
        if how.startswith("external"):
            open(os.path.join(d, "extra.py"), "w").write(body)
            pr.validate()
        else:
            # an empty module first (no Python content is analysed), then content arrives behind rope's back
            generate.create_module(pr, "extra")
            open(os.path.join(d, "extra.py"), "w").write(body)
            pr.validate()
        long_lived = attrs(pr)
        fresh_pr = Project(d, ropefolder=None); fresh = attrs(fresh_pr); fresh_pr.close()
        print(how, "long-lived:", long_lived, "fresh:", fresh)
        bad += long_lived != fresh
        pr.close()
    finally:
        shutil.rmtree(d)
sys.exit(1 if bad else 0)
