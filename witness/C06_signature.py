"""Witnesses for the C06 findings: ArgumentNormalizer (the identity signature change) on unusual but valid signatures/calls.
usage: /venv/bin/python witness/C06_signature.py [defaults|kw_defaults|assert]"""
import sys, tempfile, shutil
from rope.base.project import Project
from rope.refactor.change_signature import ChangeSignature, ArgumentNormalizer
CASES = {
    "defaults": "def f(a, b=1, *c):\n    return (a, b, c)\nprint(f(1), f(1, 2, 3))\n",
    "kw_defaults": "def f(a, *, b=1):\n    return (a, b)\nprint(f(1), f(1, b=2))\n",
    "assert": "def f(a, **k):\n    return (a, k)\nprint(f(1, **{'x': 1}))\n",
}
def run(key):
    root = tempfile.mkdtemp(); p = Project(root)
    m = p.root.create_file("m.py"); src = CASES[key]; m.write(src)
    try:
        p.do(ChangeSignature(p, m, src.index("f(")).get_changes([ArgumentNormalizer()]))
        out = m.read()
        try:
            compile(out, "m", "exec"); ok = True; msg = out.split("\n")[0]
        except SyntaxError as e:
            ok = False; msg = f"{out.splitlines()[0]!r} -> SyntaxError: {e.msg}"
    except Exception as e:
        from rope.base.exceptions import RopeError
        ok = isinstance(e, RopeError); msg = f"raised {type(e).__name__}"
    p.close(); shutil.rmtree(root)
    return ok, msg
bad = 0
for k in (sys.argv[1:] or sorted(CASES)):
    ok, msg = run(k)
    print(("holds " if ok else "VIOLATED ") + k + " :: " + msg); bad += not ok
sys.exit(1 if bad else 0)
