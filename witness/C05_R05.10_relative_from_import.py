"""MoveGlobal: a client that imports the moved name with a relative from-import (`from .src import f`) kept the stale
import after the move (ImportError on import).  Exits 0 when every probed import style survives the move."""
import os, shutil, subprocess, sys, tempfile
sys.path.insert(0, os.environ.get("ROPE", "/repo"))
from rope.base.project import Project
from rope.refactor import move


def run(files):
    d = tempfile.mkdtemp()
    try:
        for p, s in files.items():
            p = os.path.join(d, p); os.makedirs(os.path.dirname(p), exist_ok=True); open(p, "w").write(s)
        before = subprocess.run([sys.executable, "main.py"], cwd=d, capture_output=True, text=True)
        pr = Project(d)
        try:
            src = pr.get_resource("pkg/src.py")
            pr.do(move.create_move(pr, src, src.read().index("f(")).get_changes(pr.get_resource("pkg/dst.py")))
        finally:
            pr.close()
        after = subprocess.run([sys.executable, "main.py"], cwd=d, capture_output=True, text=True)
        ok = before.returncode == 0 and after.returncode == 0 and before.stdout == after.stdout
        if not ok:
            print("   client.py after the move:", repr(open(os.path.join(d, "pkg/client.py")).read()))
            print("   ", after.stderr.strip().splitlines()[-1:])
        return ok
    finally:
        shutil.rmtree(d)


base = {"pkg/__init__.py": "", "pkg/src.py": "def f():\n    return 1\n", "pkg/dst.py": "", "main.py": "import pkg.client\nprint(pkg.client.R)\n"}
cases = {
    "relative from-import": "from .src import f\nR = f()\n",
    "plain from-import": "from pkg.src import f\nR = f()\n",
    "dotted": "import pkg.src\nR = pkg.src.f()\n",
    "from . import module": "from . import src\nR = src.f()\n",
}
bad = 0
for name, client in cases.items():
    ok = run({**base, "pkg/client.py": client})
    print(name, "OK" if ok else "BROKEN")
    bad += not ok
sys.exit(1 if bad else 0)
