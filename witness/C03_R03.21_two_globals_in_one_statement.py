"""R03.21: `global a, b` (or `nonlocal x, y`) in the host function made every extraction there end in TypeError: the visitors handed all the
names of the statement to OrderedSet.add(), which takes one key."""
import os, sys
sys.path.insert(0, os.environ.get("ROPE", "/repo"))
import warnings; warnings.simplefilter("ignore")
import tempfile, shutil, sys, subprocess
from rope.base.project import Project
from rope.base import exceptions
from rope.refactor.extract import ExtractMethod
CASES=[("a = b = 0\ndef f():\n    global a, b\n    a = 1\n    b = a + 1\n    return a + b\nprint(f(), a, b)\n","    a = 1","    return"),
       ("def o():\n    x = y = 0\n    def f():\n        nonlocal x, y\n        x = 1\n        y = x + 1\n        return x + y\n    r = f()\n    return r, x, y\nprint(o())\n","        x = 1","        return x"),
       ("a = b = 0\ndef f():\n    global a, b\n    a = 1\n    b = a + 1\n    return a + b\nprint(f(), a, b)\n","    b = a + 1","    return")]
bad=0
for src,s0,e0 in CASES:
    d=tempfile.mkdtemp(); p=Project(d, ropefolder=None); m=p.root.create_file("m.py"); m.write(src)
    s=src.index(s0); e=src.index(e0)
    try:
        p.do(ExtractMethod(p,m,s,e-1).get_changes("g")); out=m.read()
        r0=subprocess.run([sys.executable,"-c",src],capture_output=True,text=True); r1=subprocess.run([sys.executable,"-c",out],capture_output=True,text=True)
        ok=(r0.stdout,r0.returncode)==(r1.stdout,r1.returncode); print("same" if ok else "DIFF", repr(out) if not ok else "", r1.stderr[-150:]); bad+=not ok
    except exceptions.RopeError as ex: print("refused", ex)
    except Exception as ex: print("INTERNAL", type(ex).__name__, ex); bad+=1
    p.close(); shutil.rmtree(d)
sys.exit(1 if bad else 0)
