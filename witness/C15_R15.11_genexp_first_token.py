"""R15.11: a scope's region may BEGIN with an identifier: the element expression of a generator expression written
without its own parentheses, `sum(x for x in xs)`.  With the strict lower bound `region[0] < offset` that first
identifier was looked up in the enclosing scope and resolved to an outer variable of the same name."""
import os, re, shutil, sys, tempfile
sys.path.insert(0, os.environ.get("ROPE", "/repo"))
import warnings; warnings.simplefilter("ignore")
from rope.base.project import Project
from rope.contrib import findit
d = tempfile.mkdtemp()
try:
    src = "x = 10\nxs = [1, 2]\ntotal = sum(x for x in xs)\nprint(total, x)\n"
    open(os.path.join(d, "m.py"), "w").write(src)
    pr = Project(d, ropefolder=None)
    m = pr.get_resource("m.py")
    outer = sorted(o.offset for o in findit.find_occurrences(pr, m, 0))
    inner = sorted(o.offset for o in findit.find_occurrences(pr, m, src.index("for x") + 4))
    print("outer x:", outer, "genexp x:", inner)
    pr.close()
    first = src.index("sum(") + 4
    sys.exit(0 if (first in inner and first not in outer) else 1)
finally:
    shutil.rmtree(d)
