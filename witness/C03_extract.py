"""Witness harness for the C03 (and C17 R17.4) findings: each case performs an extract
on a small module and compares the behaviour of the program before and after.

usage: /venv/bin/python witness/C03_extract.py [key ...]
exit 0 if every listed key reproduces (behaviour changed / not refused), 1 otherwise.
Region markers: the lines between '#<' and '#>' comment lines (exclusive) are extracted.
"""
import asyncio
import contextlib
import io
import shutil
import sys
import tempfile

from rope.base.project import Project
from rope.refactor.extract import ExtractMethod, ExtractVariable

ASYNC_PRELUDE = "import asyncio\nclass A:\n    def __init__(self, xs):\n        self.xs = list(xs)\n    def __aiter__(self):\n        return self\n    async def __anext__(self):\n        if not self.xs:\n            raise StopAsyncIteration\n        return self.xs.pop(0)\n"

CASES = {
    "R03.1|alias.name": ("def f():\n    import os\n#<\n    x = os.sep\n#>\n    return x\nprint(f())\n", "method"),
    "R03.1|ExceptHandler.name": ("def f():\n    try:\n        raise ValueError('boom')\n    except ValueError as e:\n#<\n        msg = str(e)\n#>\n    return msg\nprint(f())\n", "method"),
    "R03.1|MatchStar.name": ("def f(x):\n    match x:\n        case [first, *rest]:\n#<\n            n = len(rest)\n#>\n    return n\nprint(f([1, 2, 3]))\n", "method"),
    "R03.1|MatchMapping.rest": ("def f(x):\n    match x:\n        case {'k': 1, **others}:\n#<\n            n = len(others)\n#>\n    return n\nprint(f({'k': 1, 'a': 2}))\n", "method"),
    "R03.2|Try": ("def f(flag):\n    x = 0\n#<\n    try:\n        if flag:\n            raise ValueError\n        x = 1\n    except ValueError:\n        pass\n#>\n    return x\nprint(f(True), f(False))\n", "method"),
    "R03.2|TryStar": ("def f(flag):\n    x = 0\n#<\n    try:\n        if flag:\n            raise ValueError\n        x = 1\n    except* ValueError:\n        pass\n#>\n    return x\nprint(f(True), f(False))\n", "method"),
    "R03.2|Match": ("def f(v):\n    x = 0\n#<\n    match v:\n        case 1:\n            x = 1\n#>\n    return x\nprint(f(1), f(2))\n", "method"),
    "R03.2|AsyncFor": (ASYNC_PRELUDE + "async def f(xs):\n    x = 0\n#<\n    async for y in A(xs):\n        x = y\n#>\n    return x\nprint(asyncio.run(f([1, 2])), asyncio.run(f([])))\n", "method"),
    "R03.3|AsyncFor": (ASYNC_PRELUDE + "async def f(xs):\n    prev = None\n    out = []\n    async for y in A(xs):\n#<\n        out.append(prev)\n        prev = y\n#>\n    return out\nprint(asyncio.run(f([1, 2, 3])))\n", "method"),
    "R03.4|_ReturnOrYieldFinder|YieldFrom": ("def f(xs):\n#<\n    yield from xs\n#>\nprint(list(f([1, 2])))\n", "method"),
    "R03.6|AsyncFor": (ASYNC_PRELUDE + "async def f(a, xs):\n    async for x in A(xs):\n        print(a * 2)\n    print(a * 2)\nasyncio.run(f(1, []))\n", "variable:a * 2"),
    "R03.6|TryStar": ("def f(a, fail):\n    try:\n        if fail:\n            raise ValueError\n    except* ValueError:\n        print(a * 2)\n    print(a * 2)\nf(1, False)\n", "variable:a * 2"),
}
CASES["R17.4|_ReturnOrYieldFinder|YieldFrom"] = CASES["R03.4|_ReturnOrYieldFinder|YieldFrom"]


def behaviour(src):
    buf = io.StringIO()
    try:
        with contextlib.redirect_stdout(buf):
            exec(compile(src, "<m>", "exec"), {"__name__": "m"})
        return ("ok", buf.getvalue())
    except BaseException as e:  # noqa
        return ("raised " + type(e).__name__, buf.getvalue())


def run(key, project):
    src, how = CASES[key]
    lines = src.split("\n")
    if how == "method":
        a, b = lines.index("#<"), lines.index("#>")
        clean = lines[:a] + lines[a + 1:b] + lines[b + 1:]
        text = "\n".join(clean)
        start = len("\n".join(clean[:a])) + 1
        end = len("\n".join(clean[:b - 1]))
        m = project.root.get_child("m.py") if project.root.has_child("m.py") else project.root.create_file("m.py")
        m.write(text)
        before = behaviour(text)
        try:
            changes = ExtractMethod(project, m, start, end).get_changes("new_func")
        except Exception as e:
            return False, f"refused/raised: {type(e).__name__}: {e}"
    else:
        expr = how.split(":", 1)[1]
        text = src
        m = project.root.get_child("m.py") if project.root.has_child("m.py") else project.root.create_file("m.py")
        m.write(text)
        before = behaviour(text)
        start = text.index(expr)
        try:
            changes = ExtractVariable(project, m, start, start + len(expr)).get_changes("v", similar=True)
        except Exception as e:
            return False, f"refused/raised: {type(e).__name__}: {e}"
    project.do(changes)
    after_src = m.read()
    after = behaviour(after_src)
    project.history.undo()
    changed = before != after
    if key == "R03.2|AsyncFor":
        # (the rewritten module does not even compile: 'async for' lands in a plain def -- a further C03 violation;
        #  the clause witnessed here is that x, conditionally assigned by the loop, is not passed in)
        changed = "new_func(xs)" in after_src and "x = new_func(xs)" in after_src
    return changed, f"before={before} after={after}" + ("" if not changed else "\n--- rewritten module ---\n" + after_src)


def main():
    keys = sys.argv[1:] or sorted(CASES)
    root = tempfile.mkdtemp()
    project = Project(root)
    bad = 0
    for k in keys:
        rep, msg = run(k, project)
        print(("REPRODUCED " if rep else "NOT-REPRODUCED ") + k + " :: " + msg.split("\n")[0])
        bad += not rep
    project.close()
    shutil.rmtree(root)
    return 1 if bad else 0


if __name__ == "__main__":
    sys.exit(main())
