"""F-C11-1: after a RemoveResource change, History.undo() raises and the tree is not restored."""
import os, tempfile, shutil
from rope.base.project import Project
from rope.base import change
root = tempfile.mkdtemp()
p = Project(root)
f = p.root.create_file("a.py"); f.write("x = 1\n")
p.do(change.RemoveResource(f))
try:
    p.history.undo()
    err = None
except Exception as e:
    err = e
print("undo raised:", type(err).__name__, "| a.py exists:", os.path.exists(os.path.join(root, "a.py")))
ok = err is None and os.path.exists(os.path.join(root, "a.py"))
shutil.rmtree(root)
raise SystemExit(0 if ok else 1)
