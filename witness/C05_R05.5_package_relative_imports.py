import os, shutil, subprocess, sys, tempfile
sys.path.insert(0, os.environ.get("ROPE", "/repo"))
from rope.base.project import Project
from rope.refactor import move
d = tempfile.mkdtemp()
try:
    def w(p, s):
        p = os.path.join(d, p); os.makedirs(os.path.dirname(p), exist_ok=True); open(p, "w").write(s)
    w("top/__init__.py", "")
    w("top/util.py", "def helper():\n    return 42\n")
    w("top/pkg/__init__.py", "from .sib import VALUE\n")
    w("top/pkg/sib.py", "VALUE = 1\n")
    w("top/pkg/sub/__init__.py", "")
    w("top/pkg/sub/deep.py", "from ..sib import VALUE\nfrom ... import util\n\ndef g():\n    return VALUE + util.helper()\n")
    w("top/pkg/mod.py", "from . import sib\nfrom .sib import VALUE\nfrom .sub import deep\nfrom .. import util\n\ndef f():\n    return util.helper() + sib.VALUE + VALUE + deep.g()\n")
    w("top/dest/__init__.py", "")
    w("main.py", "from top.pkg import mod\nimport top.pkg.sub.deep\nprint(mod.f(), top.pkg.sub.deep.g())\n")
    before = subprocess.run([sys.executable, "main.py"], cwd=d, capture_output=True, text=True)
    print("before:", before.stdout.strip(), before.returncode, before.stderr[-200:])
    pr = Project(d)
    ch = move.create_move(pr, pr.get_resource("top/pkg")).get_changes(pr.get_resource("top/dest"))
    pr.do(ch)
    pr.close()
    for f in ("main.py", "top/dest/pkg/mod.py", "top/dest/pkg/sub/deep.py", "top/dest/pkg/__init__.py"):
        print("---", f); print(open(os.path.join(d, f)).read())
    after = subprocess.run([sys.executable, "main.py"], cwd=d, capture_output=True, text=True)
    print("after:", after.stdout.strip(), after.returncode, after.stderr[-400:])
    sys.exit(0 if (after.returncode == 0 and after.stdout == before.stdout) else 1)
finally:
    shutil.rmtree(d)
