"""F-C14-1: logical_line_in() for a line inside a multi-line dict/set comprehension returns that single line,
because get_block_start does not count braces; the tokenizer's logical line spans the whole statement."""
import io, tokenize, sys
from rope.base import codeanalyze
src = "x = {\n    a: b\n    for a in y\n    if a\n}\nz = 1\n"
lines = codeanalyze.SourceLinesAdapter(src)
finder = codeanalyze.LogicalLineFinder(lines)
# tokenizer's statement boundaries
bounds, start = [], 1
for tok in tokenize.generate_tokens(io.StringIO(src).readline):
    if tok.type == tokenize.NEWLINE:
        bounds.append((start, tok.start[0])); start = tok.start[0] + 1
expected = {ln: b for b in bounds for ln in range(b[0], b[1] + 1)}
bad = [(ln, finder.logical_line_in(ln), expected[ln]) for ln in sorted(expected) if finder.logical_line_in(ln) != expected[ln]]
print("tokenizer statements:", bounds)
print("disagreements (line, rope, tokenizer):", bad)
sys.exit(1 if bad else 0)
