"""R06.13: ArgumentRemover.change_argument_mapping looked the removed parameter up in the call's mapping under
`definition_info.args_with_defaults[0]` -- the first (name, default) PAIR, not the name at its own index -- so the value was
never dropped.  A later changer that adds a parameter of the same name then found the stale value: remove `a`, add a new
`a=10` at the end, and the call f(1, 2) became f(2, 1) instead of f(2)."""
import os, shutil, sys, tempfile
sys.path.insert(0, os.environ.get("ROPE", "/repo"))
import warnings; warnings.simplefilter("ignore")
from rope.base.project import Project
from rope.refactor.change_signature import ArgumentAdder, ArgumentRemover, ChangeSignature
d = tempfile.mkdtemp()
try:
    src = "def f(a, b):\n    return b\n\n\nprint(f(1, 2))\n"
    open(os.path.join(d, "m.py"), "w").write(src)
    pr = Project(d, ropefolder=None)
    r = pr.get_resource("m.py")
    pr.do(ChangeSignature(pr, r, src.index("f(")).get_changes([ArgumentRemover(0), ArgumentAdder(1, "a", "10")]))
    out = r.read()
    pr.close()
    print(out)
    ok = "print(f(2))" in out
    print("OK" if ok else "the removed argument's value came back in the new parameter")
    sys.exit(0 if ok else 1)
finally:
    shutil.rmtree(d)
