"""R01.13 / R02.18: _TextualFinder._search_in_f_string yielded `node.col_offset` as the index of the name in the
f-string.  That number is a byte column relative to the node's own line: after non-ASCII text in the literal, or on the
second line of a triple-quoted f-string, the candidate offset pointed elsewhere, the occurrence was dropped, and rename
left the old name inside the f-string (NameError at run time)."""
import os, shutil, sys, tempfile
sys.path.insert(0, os.environ.get("ROPE", "/repo"))
import warnings; warnings.simplefilter("ignore")
from rope.base.project import Project
from rope.refactor.rename import Rename
bad = 0
for label, src in (
    ("non-ascii", 'name = 1\nprint(f"ééééééé {name}")\n'),
    ("second line", 'name = 1\nprint(f"""first\n{name} and {name}""")\n'),
    ("attribute", 'class C:\n    name = 1\nc = C()\nprint(f"""é\n{c.name}""")\n'),
):
    d = tempfile.mkdtemp()
    try:
        open(os.path.join(d, "m.py"), "w", encoding="utf-8").write(src)
        pr = Project(d, ropefolder=None)
        r = pr.get_resource("m.py")
        pr.do(Rename(pr, r, src.index("name")).get_changes("renamed"))
        new = r.read()
        pr.close()
        ok = new == src.replace("name", "renamed")
        print(label, "OK" if ok else "left behind: " + repr(new))
        bad += not ok
    finally:
        shutil.rmtree(d)
sys.exit(1 if bad else 0)
