"""C10: a failed / interrupted composite change must leave the project tree as it was.

Input: a project whose root is a git working tree (so rope picks
`GITCommands` by itself) and the composite change

    CreateFolder  pkg
    CreateFile    pkg/__init__.py
    ChangeContents a.py  "x = 1\n" -> "x = 2\n"

The change is made to fail at every operation index (an injected OSError in
the file-system command) and is stopped through the task handle at every job
boundary.  After every reported failure the directory tree (without `.git`)
is compared, byte for byte, with the tree before the call.

exit 0: the tree was always restored;  exit 1: a stray file / folder is left.
"""
import os as _os, sys as _sys; _sys.path.insert(0, _os.environ.get("ROPE", "/repo"))  # the tree under test
import os
import shutil
import subprocess
import sys
import tempfile

from rope.base import change, exceptions, fscommands, taskhandle
from rope.base.project import Project


def snapshot(root):
    """{relative path: bytes or None for a folder}, `.git` left out"""
    result = {}
    for folder, dirs, files in os.walk(root):
        if ".git" in dirs:
            dirs.remove(".git")
        rel = os.path.relpath(folder, root)
        if rel != ".":
            result[rel + "/"] = None
        for name in files:
            with open(os.path.join(folder, name), "rb") as handle:
                result[os.path.normpath(os.path.join(rel, name))] = handle.read()
    return result


class FailingGit(fscommands.GITCommands):
    """rope's own git commands; the `fail_at`-th command raises OSError"""

    def __init__(self, root, fail_at):
        super().__init__(root)
        self.fail_at = fail_at
        self.count = 0

    def _tick(self, name):
        index = self.count
        self.count += 1
        if index == self.fail_at:
            raise OSError("injected fault: %s is command %d" % (name, index))

    def create_file(self, path):
        self._tick("create_file")
        super().create_file(path)

    def create_folder(self, path):
        self._tick("create_folder")
        super().create_folder(path)

    def write(self, path, data):
        self._tick("write")
        super().write(path, data)


def new_git_tree():
    root = tempfile.mkdtemp(prefix="c10h21-")
    subprocess.run(
        ["git", "init", "-q"], cwd=root, check=True, stdout=subprocess.DEVNULL
    )
    with open(os.path.join(root, "a.py"), "w") as handle:
        handle.write("x = 1\n")
    return root


def composite(project):
    changes = change.ChangeSet("new package and an edit")
    changes.add_change(change.CreateFolder(project.root, "pkg"))
    changes.add_change(change.CreateFile(project.get_folder("pkg"), "__init__.py"))
    changes.add_change(change.ChangeContents(project.get_file("a.py"), "x = 2\n"))
    return changes


GIT_SAID = []


def quietly(function):
    """Run `function` with fd 2 redirected: rope lets git write to stderr"""
    sys.stderr.flush()
    saved = os.dup(2)
    with tempfile.TemporaryFile() as sink:
        os.dup2(sink.fileno(), 2)
        try:
            return function()
        finally:
            os.dup2(saved, 2)
            os.close(saved)
            sink.seek(0)
            GIT_SAID[:] = sink.read().decode(errors="replace").splitlines()


def attempt(label, make_fscommands, make_handle):
    """One failing Project.do(); True when the property held"""
    root = new_git_tree()
    try:
        project = Project(root, fscommands=make_fscommands(root), ropefolder=None)
        changes = composite(project)
        before = snapshot(root)
        undo_before = list(project.history.undo_list)
        redo_before = list(project.history.redo_list)
        handle = make_handle()
        error = None
        try:
            quietly(lambda: project.do(changes, task_handle=handle))
        except (OSError, exceptions.RopeError) as e:
            error = e
        after = snapshot(root)
        history_same = (
            list(project.history.undo_list) == undo_before
            and list(project.history.redo_list) == redo_before
        )
        project.close()
        if error is None:
            print("  %-28s completed (nothing to check)" % label)
            return True
        held = after == before and history_same
        print(
            "  %-28s reported %s -> %s"
            % (label, type(error).__name__, "tree restored" if held else "VIOLATION")
        )
        for path in sorted(set(before) | set(after)):
            if before.get(path, "<absent>") != after.get(path, "<absent>"):
                print(
                    "        %-18s before: %r   after: %r"
                    % (path, before.get(path, "<absent>"), after.get(path, "<absent>"))
                )
        if not history_same:
            print("        the undo/redo lists changed")
        for line in GIT_SAID:
            print("        git said (exit status ignored by rope): " + line)
        return held
    finally:
        shutil.rmtree(root)


def stopping_handle(stop_at):
    handle = taskhandle.TaskHandle("demo")
    calls = [0]

    def observer():
        calls[0] += 1
        if calls[0] == stop_at and not handle.is_stopped():
            handle.stop()

    handle.add_observer(observer)
    return handle


def main():
    if shutil.which("git") is None:
        print("git is not installed: the input of this demo cannot be built")
        return 0
    root = new_git_tree()
    try:
        project = Project(root, ropefolder=None)
        print("rope chose", type(project.fscommands).__name__, "for a git working tree")
        chosen_git = isinstance(project.fscommands, fscommands.GITCommands)
        project.close()
    finally:
        shutil.rmtree(root)
    if not chosen_git:
        print("not the git commands: nothing to show")
        return 0

    ok = True
    print("control: plain FileSystemCommands, the write (command 2) fails")

    class FailingPlain(fscommands.FileSystemCommands):
        count = 0

        def write(self, path, data):
            raise OSError("injected fault: write")

    ok &= attempt(
        "plain, write fails", lambda root: FailingPlain(), taskhandle.NullTaskHandle
    )

    print("git commands, a fault injected at every command index")
    for index in range(3):
        ok &= attempt(
            "fault at command %d" % index,
            lambda root: FailingGit(root, index),
            taskhandle.NullTaskHandle,
        )

    print("git commands (chosen by rope), task stopped at every job boundary")
    for stop_at in range(1, 8):
        ok &= attempt(
            "stop at notification %d" % stop_at,
            lambda root: None,
            lambda: stopping_handle(stop_at),
        )

    if ok:
        print("PROPERTY HOLDS: every failed call left the tree as it was")
        return 0
    print("PROPERTY VIOLATED: a failed composite change left created files/folders")
    return 1


if __name__ == "__main__":
    sys.exit(main())
