"""C04 / R04.12: inlining a function whose body holds a multi-line string into a more deeply indented block.

    def g():
        s = '''a
        b'''            (the literal is 'a\\n    b')
        return s
    def f(c):
        if c:
            x = g()
            return x

Before fix 86a1eab the inlined body was re-indented line by line, the continuation line of the literal included:
f(1) returned 'a\\n        b' instead of 'a\\n    b'.

exit 0: the program prints the same before and after;  exit 1: the literal's value changed.
"""
import os as _os, sys as _sys; _sys.path.insert(0, _os.environ.get("ROPE", "/repo"))  # the tree under test
import shutil
import subprocess
import sys
import tempfile

from rope.base.project import Project
from rope.refactor.inline import create_inline

SRC = 'def g():\n    s = """a\n    b"""\n    return s\ndef f(c):\n    if c:\n        x = g()\n        return x\nprint(repr(f(1)))\n'


def run(root):
    r = subprocess.run([sys.executable, "m.py"], cwd=root, capture_output=True, text=True)
    return r.returncode, r.stdout, r.stderr[-300:]


def main():
    root = tempfile.mkdtemp(prefix="c04-r12-")
    try:
        project = Project(root, ropefolder=None)
        m = project.root.create_file("m.py")
        m.write(SRC)
        before = run(root)
        project.do(create_inline(project, m, SRC.index("g()")).get_changes())
        after = run(root)
        print(m.read())
        print("before:", before)
        print("after :", after)
        project.close()
        if before != after:
            print("VIOLATED: inlining changed what the program prints")
            return 1
        print("holds")
        return 0
    finally:
        shutil.rmtree(root, ignore_errors=True)


sys.exit(main())
