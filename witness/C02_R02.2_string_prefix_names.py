"""F-C02-1: renaming a variable whose name is a string prefix (b, f, r) rewrites the prefix of string literals."""
import sys
import tempfile, shutil
from rope.base.project import Project
from rope.refactor.rename import Rename
root = tempfile.mkdtemp(); p = Project(root); m = p.root.create_file("m.py")
src = "b = 1\nx = b'abc'\ny = b + 1\nf = 2\nz = f'{y}'\nr = 3\nw = r'\\d' \n"
m.write(src)
bad = False
for name in ["b", "f", "r"]:
    off = src.index(name + " = ")
    ch = Rename(p, m, off).get_changes(name + "_new")
    plus = [l for l in ch.get_description().splitlines() if l.startswith("+") and not l.startswith("+++")]
    print(name, "->", plus)
    if any("'" in l for l in plus): bad = True
p.close(); shutil.rmtree(root)
sys.exit(1 if bad else 0)
