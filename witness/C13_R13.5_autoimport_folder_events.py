"""F-C13-1: moving/removing a package leaves its modules' names in the auto-import index."""
import os, sys, tempfile, shutil, warnings
warnings.simplefilter("ignore")
from rope.base.project import Project
which = sys.argv[1] if len(sys.argv) > 1 else "sqlite"
root = tempfile.mkdtemp()
p = Project(root)
pkg = p.root.create_folder("pkg"); pkg.create_file("__init__.py")
m = pkg.create_file("mod.py"); m.write("def uniq_func_xyz():\n    pass\n")
if which == "sqlite":
    from rope.contrib.autoimport.sqlite import AutoImport
    ai = AutoImport(p, observe=True, memory=True)
    ai.generate_cache()
    q = lambda: [x for x in ai.search("uniq_func_xyz")]
else:
    from rope.contrib.autoimport.pickle import AutoImport
    ai = AutoImport(p, observe=True)
    ai.generate_cache()
    q = lambda: ai.get_modules("uniq_func_xyz")
before = q()
op = sys.argv[2] if len(sys.argv) > 2 else "move"
if op == "move":
    p.get_folder("pkg").move("pkg2")
else:
    p.get_folder("pkg").remove()
after = q()
print(which, op, "before:", before, "after:", after)
stale = any("pkg.mod" in str(x) for x in after)
print("STALE INDEX" if stale else "index updated")
p.close(); shutil.rmtree(root)
raise SystemExit(1 if stale else 0)
