"""F-C01-1: renaming a variable that an inner function declares nonlocal rewrites only part of its occurrences."""
import tempfile, shutil
from rope.base.project import Project
from rope.refactor.rename import Rename
root = tempfile.mkdtemp()
p = Project(root)
m = p.root.create_file("m.py")
src = "def outer():\n    x = 1\n    def inner():\n        nonlocal x\n        x = 2\n    inner()\n    return x\n\nprint(outer())\n"
m.write(src)
p.do(Rename(p, m, src.index("x = 1")).get_changes("y"))
out = m.read()
print(out)
try:
    compile(out, "m.py", "exec"); ns = {}; exec(out, ns); ok = True
except Exception as e:
    print("renamed program fails:", type(e).__name__, e); ok = False
p.close(); shutil.rmtree(root)
raise SystemExit(0 if ok else 1)
