"""F-C18-1: every strict non-empty prefix of a saved data file must leave the project openable."""
import os, tempfile, shutil
from rope.base.project import Project
from rope.base import change
root = tempfile.mkdtemp()
p = Project(root, save_history=True, save_objectdb=True)
f = p.root.create_file("a.py")
p.do(change.ChangeContents(f, "x = 1\n"))
p.close()
hist = os.path.join(root, ".ropeproject", "history")
data = open(hist, "rb").read()
bad = []
for n in range(1, len(data)):
    open(hist, "wb").write(data[:n])
    try:
        q = Project(root, save_history=True, save_objectdb=True)
        q.history.undo_list
        q.close()
    except Exception as e:
        bad.append((n, type(e).__name__))
    open(hist, "wb").write(data)
print(sorted({b[1] for b in bad}), f"{len(bad)} of {len(data)-1} prefixes make opening raise; first: {bad[:3]}")
shutil.rmtree(root)
raise SystemExit(1 if bad else 0)
