"""R06.10: `col_offset`/`end_col_offset` of AST nodes count UTF-8 bytes.  _BaseFunctionParser._get_source_range added them
to a character offset, so with a non-ASCII character earlier on the line every later argument text of the call was cut
one or more characters too far right: reordering the parameters of f rewrote print(f("é", "x")) into code that does not
compile."""
import os, shutil, sys, tempfile
sys.path.insert(0, os.environ.get("ROPE", "/repo"))
import warnings; warnings.simplefilter("ignore")
from rope.base.project import Project
from rope.refactor.change_signature import ChangeSignature, ArgumentReorderer
d = tempfile.mkdtemp()
try:
    src = 'def f(a, b):\n    return a + b\n\n\nprint(f("é", "x"))\n'
    open(os.path.join(d, "m.py"), "w", encoding="utf-8").write(src)
    pr = Project(d, ropefolder=None)
    r = pr.get_resource("m.py")
    ch = ChangeSignature(pr, r, src.index("f(a")).get_changes([ArgumentReorderer([1, 0])])
    pr.do(ch)
    new = r.read()
    pr.close()
    print(new)
    want = 'def f(b, a):\n    return a + b\n\n\nprint(f("x", "é"))\n'
    ok = new == want
    print("OK" if ok else "call rewritten wrongly")
    sys.exit(0 if ok else 1)
finally:
    shutil.rmtree(d)
