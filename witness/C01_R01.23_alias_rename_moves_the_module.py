"""R01.23: Rename of a name that is merely BOUND to a module -- the alias of `import mod as m`, the variable of `alias = mod` -- also moved
mod.py to the new name while `import mod` stayed: the program ended in ModuleNotFoundError."""
import os, shutil, subprocess, sys, tempfile
sys.path.insert(0, os.environ.get("ROPE", "/repo"))
import warnings; warnings.simplefilter("ignore")
from rope.base.project import Project
from rope.refactor.rename import Rename

bad = 0
for src, marker in (("import mod as m\nprint(m.f())\n", "m\n"), ("import mod\nalias = mod\nprint(alias.f())\n", "alias"), ("import mod\nprint(mod.f())\n", "mod")):
    d = tempfile.mkdtemp()
    try:
        pr = Project(d, ropefolder=None)
        pr.root.create_file("mod.py").write("def f():\n    return 1\n")
        a = pr.root.create_file("a.py")
        a.write(src)
        r0 = subprocess.run([sys.executable, "a.py"], cwd=d, capture_output=True, text=True)
        pr.do(Rename(pr, a, src.index(marker)).get_changes("zz"))
        r1 = subprocess.run([sys.executable, "a.py"], cwd=d, capture_output=True, text=True)
        ok = (r0.stdout, r0.returncode) == (r1.stdout, r1.returncode)
        print("OK " if ok else "BAD", sorted(x for x in os.listdir(d) if x.endswith(".py")), repr(a.read()), "" if ok else r1.stderr.strip().splitlines()[-1])
        bad += not ok
        pr.close()
    finally:
        shutil.rmtree(d)
sys.exit(1 if bad else 0)
