"""C12, second (independent) violation: a CRLF file replaced by text without a
line break; undo after close/reopen restores the old text with LF line ends.
exit 0: bytes restored exactly; exit 1: not."""
import os as _os, sys as _sys; _sys.path.insert(0, _os.environ.get("ROPE", "/repo"))  # the tree under test
import os, shutil, sys, tempfile
from rope.base.project import Project

ORIGINAL = b"a = 1\r\nb = 2\r\n"

def scenario(reopen):
    root = tempfile.mkdtemp()
    try:
        path = os.path.join(root, "m.py")
        with open(path, "wb") as f:
            f.write(ORIGINAL)
        project = Project(root, save_history=True, save_objectdb=True)
        project.get_file("m.py").write("x = 1")  # no line break in the new text
        if reopen:
            project.close()
            project = Project(root, save_history=True, save_objectdb=True)
        project.history.undo()
        project.close()
        with open(path, "rb") as f:
            return f.read()
    finally:
        shutil.rmtree(root)

same = scenario(False)
reopened = scenario(True)
print("original bytes         :", ORIGINAL)
print("undo, never closed     :", same)
print("undo, closed + reopened:", reopened)
sys.exit(0 if same == ORIGINAL and reopened == ORIGINAL else 1)
