"""R13.16: the auto-import index answers "which module defines this name".  Its observer indexed EVERY file that was changed
through rope: after `notes.txt` was written with `def fn(): pass`, search('fn') offered `from notes import fn` -- a module
that does not exist; a freshly generated index does not contain it."""
import os, shutil, sys, tempfile
sys.path.insert(0, os.environ.get("ROPE", "/repo"))
import warnings; warnings.simplefilter("ignore")
from rope.base.project import Project
from rope.contrib.autoimport.sqlite import AutoImport
d = tempfile.mkdtemp()
try:
    pr = Project(d, ropefolder=None)
    ai = AutoImport(pr, memory=True)
    ai.generate_cache()
    pr.root.create_file("notes.txt").write("def fn(): pass\n")
    pr.root.create_file("mod.py").write("def gn(): pass\n")
    got = sorted(ai.search("fn")), sorted(ai.search("gn"))
    print(got)
    ok = got[0] == [] and any("mod" in str(x) for x in got[1])
    ai.close(); pr.close()
    print("OK" if ok else "a file that is no module is in the index")
    sys.exit(0 if ok else 1)
finally:
    shutil.rmtree(d)
