import os, shutil, sys, tempfile
sys.path.insert(0, os.environ.get("ROPE", "/repo"))
import warnings; warnings.simplefilter("ignore")
from rope.base.project import Project
from rope.base import evaluate
d = tempfile.mkdtemp()
def w(p, s):
    p = os.path.join(d, p); os.makedirs(os.path.dirname(p), exist_ok=True); open(p, "w").write(s)
w("pkg/__init__.py", "from pkg import sub\nfrom . import other\nfrom .render import render\nfrom .sub import helper as sub2\nX = sub.helper() + other.Y\n")
w("pkg/sub.py", "def helper():\n    return 1\n")
w("pkg/other.py", "Y = 2\n")
w("pkg/render.py", "def render():\n    return 1\n")
w("use.py", "import pkg\nfrom pkg import sub, other, render, X\nprint(pkg.sub.helper(), other.Y, render(), X, pkg.render())\n")
pr = Project(d, ropefolder=None)
bad = 0
for path in ("use.py", "pkg/__init__.py"):
    res = pr.get_resource(path); pm = pr.get_pymodule(res); src = res.read()
    import re
    for m in re.finditer(r"\b(sub|other|render|helper|X|Y)\b", src):
        pn = evaluate.eval_location(pm, m.start())
        loc = None if pn is None else pn.get_definition_location()
        r = None if loc is None or loc[0] is None else (loc[0].get_resource().path, loc[1])
        print(path, m.start(), m.group(0), r)
        if r is None: bad += 1
pr.close(); shutil.rmtree(d)
sys.exit(1 if bad else 0)
