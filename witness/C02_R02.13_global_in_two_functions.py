"""R02.13: a name that exists only through `global` declarations (no module-level assignment) is ONE binding shared by
every function that declares it.  Before the repair each declaring function got its own binding: occurrences asked from
one function did not include the other's, and a rename changed only one of them."""
import os, re, shutil, sys, tempfile
sys.path.insert(0, os.environ.get("ROPE", "/repo"))
import warnings; warnings.simplefilter("ignore")
from rope.base.project import Project
from rope.contrib import findit
d = tempfile.mkdtemp()
try:
    src = "def setup():\n    global counter\n    counter = 0\n\ndef bump():\n    global counter\n    counter += 1\n    return counter\n\nsetup()\nprint(bump())\n"
    open(os.path.join(d, "m.py"), "w").write(src)
    pr = Project(d, ropefolder=None)
    m = pr.get_resource("m.py")
    sets = {tuple(sorted(o.offset for o in findit.find_occurrences(pr, m, mo.start()))) for mo in re.finditer(r"\bcounter\b", src)}
    pr.close()
    print(sets)
    sys.exit(0 if len(sets) == 1 and len(next(iter(sets))) == 5 else 1)
finally:
    shutil.rmtree(d)
