"""R07.18: a name that is only re-exported through `__all__` counts as used.  The reader of `__all__` looked into list
literals only: with `__all__ = ("sqrt",)` -- a tuple, as many modules write it -- organize imports removed `from math import
sqrt`, and `from m import *` elsewhere lost the name."""
import os, shutil, sys, tempfile
sys.path.insert(0, os.environ.get("ROPE", "/repo"))
import warnings; warnings.simplefilter("ignore")
from rope.base.project import Project
from rope.refactor.importutils import ImportOrganizer
bad = 0
for all_ in ('["sqrt"]', '("sqrt",)', '("sqrt", *())'):
    d = tempfile.mkdtemp()
    try:
        src = f"from math import sqrt, floor\n\n__all__ = {all_}\n"
        open(os.path.join(d, "m.py"), "w").write(src)
        pr = Project(d, ropefolder=None)
        r = pr.get_resource("m.py")
        ch = ImportOrganizer(pr).organize_imports(r)
        if ch:
            pr.do(ch)
        out = r.read()
        pr.close()
        ok = "import sqrt" in out and "floor" not in out
        print(all_, "OK" if ok else "-> " + repr(out)); bad += not ok
    finally:
        shutil.rmtree(d)
sys.exit(1 if bad else 0)
