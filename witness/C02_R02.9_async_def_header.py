"""R02.9: the name in an `async def` header is a definition header like `def`/`class`.  Before the repair the word
finder only knew "def" and "class": rename / find-occurrences started on the name in `async def m(self)` of a method
resolved nothing (refused), and parameters with defaults in such a header were not resolved either."""
import os, re, shutil, sys, tempfile
sys.path.insert(0, os.environ.get("ROPE", "/repo"))
import warnings; warnings.simplefilter("ignore")
from rope.base.project import Project
from rope.contrib import findit

src = '''class A:
    async def fetch(self, timeout=None):
        return timeout
    def plain(self, timeout=None):
        return timeout

async def main():
    a = A()
    await a.fetch(timeout=3)
    a.plain(timeout=3)
'''
d = tempfile.mkdtemp()
bad = 0
try:
    open(os.path.join(d, "m.py"), "w").write(src)
    pr = Project(d, ropefolder=None)
    m = pr.get_resource("m.py")
    for name in ("fetch", "plain"):
        sets = set()
        for mo in re.finditer(r"\b%s\b" % name, src):
            try:
                occ = tuple(sorted(o.offset for o in findit.find_occurrences(pr, m, mo.start())))
            except Exception as e:
                occ = ("ERR", type(e).__name__)
            sets.add(occ)
        print(name, sets)
        if len(sets) != 1 or len(next(iter(sets))) != 2:
            bad += 1
    pr.close()
finally:
    shutil.rmtree(d)
sys.exit(1 if bad else 0)
