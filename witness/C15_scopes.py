"""Witness harness for the C15 / C01 findings: for each finding key a snippet that
puts the construct at the grammar position in question, then rope's scope tree /
name tables are compared with the interpreter's symtable.

usage: /venv/bin/python witness/C15_scopes.py [key ...]     (no key = all)
exit 0 if every listed key reproduces (rope disagrees with symtable), 1 otherwise.
(The *checks* never run this: it is the demonstration recorded with the findings.)
"""
import sys
import symtable
import tempfile
import shutil

from rope.base.project import Project
from rope.base import libutils

COMP = "list(q for q in xs)"  # generator expression: still a real scope under PEP 709
CASES = {
    # key: (source, what to compare)
    "R15.4|AnnAssign.annotation": (f"xs = []\nw: {COMP} = 1\n", "comps"),
    "R15.4|AnnAssign.target": (f"xs = [0]\na = [0]\na[{COMP}[0]]: int = 1\n", "comps"),
    "R15.4|AnnAssign.value": (f"xs = []\nw: list = {COMP}\n", "comps"),
    "R15.4|Assign.targets": (f"xs = [0]\na = [0]\na[{COMP}[0]] = 1\n", "comps"),
    "R15.4|AsyncFor.iter": (f"async def f(xs):\n    async for y in {COMP}:\n        pass\n", "comps"),
    "R15.4|AsyncFor.target": (f"async def f(xs, a, ys):\n    async for a[{COMP}[0]] in ys:\n        pass\n", "comps"),
    "R15.4|AugAssign.target": (f"xs = [0]\na = [0]\na[{COMP}[0]] += 1\n", "comps"),
    "R15.4|AugAssign.value": (f"xs = []\na = []\na += {COMP}\n", "comps"),
    "R15.4|ExceptHandler.type": (f"xs = []\ntry:\n    pass\nexcept tuple({COMP}):\n    pass\n", "comps"),
    "R15.4|For.iter": (f"xs = []\nfor y in {COMP}:\n    pass\n", "comps"),
    "R15.4|For.target": (f"xs = [0]\na = [0]\nfor a[{COMP}[0]] in xs:\n    pass\n", "comps"),
    "R15.4|Return.value": (f"def f(xs):\n    return {COMP}\n", "comps"),
    "R15.4|Yield.value": (f"def f(xs):\n    yield {COMP}\n", "comps"),
    "R15.4|comprehension.ifs": ("xs = []\nr = list(x for x in xs if list(q for q in x))\n", "comps"),
    "R15.4|withitem.context_expr": (f"xs = ['f']\nwith open({COMP}[0]) as fh:\n    pass\n", "comps"),
    "R15.4|withitem.optional_vars": (f"xs = [0]\na = [0]\nwith open('f') as a[{COMP}[0]]:\n    pass\n", "comps"),
    "R15.4|Lambda": ("f = lambda a: a\n", "lambda"),
    "R15.1|MatchAs.name": ("def f(x):\n    match x:\n        case (1 | 2) as z:\n            return z\n", "names:f"),
    "R15.1|MatchStar.name": ("def f(x):\n    match x:\n        case [1, *rest]:\n            return rest\n", "names:f"),
    "R15.1|MatchMapping.rest": ("def f(x):\n    match x:\n        case {'k': 1, **others}:\n            return others\n", "names:f"),
    "R15.1|TypeVar.name": ("def f[T](x: T) -> T:\n    return x\n", "lookup:f:T"),
    "R15.1|ParamSpec.name": ("def f[**P](x):\n    return x\n", "lookup:f:P"),
    "R15.1|TypeVarTuple.name": ("def f[*Ts](x):\n    return x\n", "lookup:f:Ts"),
    "R15.1|TypeAlias.name[Store]": ("type X = int\n", "names:"),
    "R15.1|AugAssign.target[Store]": ("def f():\n    x += 1\n", "names:f"),
    "R15.2|PyFunction.get_param_names|posonlyargs": ("def f(a, /, b, *c, d, e=1, **k):\n    pass\n", "names:f"),
    "R15.2|PyFunction.get_param_names|kwonlyargs": ("def f(a, /, b, *c, d, e=1, **k):\n    pass\n", "names:f"),
    "R15.3|Nonlocal": ("def outer():\n    x = 1\n    def inner():\n        nonlocal x\n        x = 2\n    return inner\n", "nonlocal"),
    "R15.5|FunctionDef.args": ("def f(xs, d=list(i for i in range(3))):\n    pass\n", "comp-parent:module"),
    "R15.5|FunctionDef.decorator_list": ("def dec(a):\n    return lambda g: g\n@dec(list(i for i in range(3)))\ndef f():\n    pass\n", "comp-parent:module"),
    "R15.5|FunctionDef.returns": ("def f() -> list(i for i in range(3)):\n    pass\n", "comp-parent:module"),
    "R15.5|ClassDef.bases": ("def b(a):\n    return object\nclass C(b(list(i for i in range(3)))):\n    pass\n", "comp-parent:module"),
    "R15.5|ClassDef.decorator_list": ("def dec(a):\n    return lambda g: g\n@dec(list(i for i in range(3)))\nclass C:\n    pass\n", "comp-parent:module"),
    "R15.5|ClassDef.keywords": ("def m(a):\n    return type\nclass C(metaclass=m(list(i for i in range(3)))):\n    pass\n", "comp-parent:module"),
    "R15.5|ListComp.generators[0].iter": ("z = []\nr = list(a for a in list(b for b in z))\n", "comp-parent:module-all"),
    "R15.5|NamedExpr.target@Comprehension": ("def f(xs):\n    ys = [(t := x) for x in xs]\n    return t\n", "names:f"),
}
CASES["R01.2|Nonlocal"] = CASES["R15.3|Nonlocal"]


def rope_scopes(scope, depth=0, out=None):
    out = out if out is not None else []
    out.append((depth, scope.get_kind(), scope))
    for s in scope.get_scopes():
        rope_scopes(s, depth + 1, out)
    return out


def sym_scopes(t, depth=0, out=None):
    out = out if out is not None else []
    out.append((depth, t.get_type(), t.get_name(), t))
    for c in t.get_children():
        sym_scopes(c, depth + 1, out)
    return out


def find_sym(t, name):
    for d, ty, n, tab in sym_scopes(t):
        if n == name and ty == "function":
            return tab
    return t


def run(key, project):
    src, how = CASES[key]
    mod = libutils.get_string_module(project, src)
    top = mod.get_scope()
    st = symtable.symtable(src, "<w>", "exec")
    rs = rope_scopes(top)
    ss = sym_scopes(st)
    if how == "comps":
        r = sum(1 for d, k, s in rs if type(s).__name__ == "ComprehensionScope")
        p = sum(1 for d, ty, n, t in ss if n in ("listcomp", "genexpr", "setcomp", "dictcomp"))
        return r != p, f"comprehension scopes: rope={r} python={p}"
    if how == "lambda":
        r = [k for d, k, s in rs]
        p = [n for d, ty, n, t in ss]
        return len(r) != len(p), f"scopes: rope={r} python={p}"
    if how.startswith("names:"):
        fn = how.split(":")[1]
        rscope = next((s for d, k, s in rs if k == "Function" and s.pyobject.get_name() == fn), top) if fn else top
        rnames = set(rscope.get_defined_names()) if fn == "" else set(rscope.get_names())
        tab = find_sym(st, fn) if fn else st
        pnames = {s.get_name() for s in tab.get_symbols() if s.is_local() or s.is_parameter()}
        pnames -= {"xs"} - rnames if False else set()
        missing = pnames - rnames
        return bool(missing), f"names of {fn or 'module'}: rope={sorted(rnames)} python-local={sorted(pnames)} missing={sorted(missing)}"
    if how.startswith("lookup:"):
        _, fn, name = how.split(":")
        rscope = next(s for d, k, s in rs if k == "Function" and s.pyobject.get_name() == fn)
        found = rscope.lookup(name)
        return found is None, f"lookup of {name} from {fn}: rope={found} (python resolves it to the type parameter)"
    if how == "nonlocal":
        outer = next(s for d, k, s in rs if k == "Function" and s.pyobject.get_name() == "outer")
        inner = next(s for d, k, s in rs if k == "Function" and s.pyobject.get_name() == "inner")
        same = inner.lookup("x") is outer.lookup("x")
        return not same, f"inner.lookup('x') is outer's x: {same} (python: nonlocal => same variable)"
    if how.startswith("comp-parent"):
        comps = [(d, s) for d, k, s in rs if type(s).__name__ == "ComprehensionScope"]
        pc = [(d, n) for d, ty, n, t in ss if n in ("listcomp", "genexpr")]
        rd = sorted(d for d, s in comps)
        pd = sorted(d for d, n in pc)
        # python nests type-parameter/annotation scopes differently; compare depth of comprehension scopes
        return rd != pd, f"depth of comprehension scopes in the scope tree: rope={rd} python={pd}"
    raise SystemExit(f"unknown how {how}")


def main():
    keys = sys.argv[1:] or sorted(CASES)
    root = tempfile.mkdtemp()
    project = Project(root)
    bad = 0
    for k in keys:
        try:
            rep, msg = run(k, project)
        except Exception as e:  # a crash of rope on the snippet also counts as a disagreement
            rep, msg = True, f"rope raised {type(e).__name__}: {e}"
        print(("REPRODUCED " if rep else "NOT-REPRODUCED ") + k + " :: " + msg)
        bad += not rep
    project.close()
    shutil.rmtree(root)
    return 1 if bad else 0


if __name__ == "__main__":
    sys.exit(main())
