"""R15.19 (second clause): a class body is no enclosing scope of its methods.  `def outer(): x = 1; class K: x = 'attr'; def m(self): nonlocal x`
filed K's attribute under m's `x`: lookup disagreed with the interpreter, and Rename of outer's `x` left `nonlocal x` behind (SyntaxError)."""
import os, shutil, subprocess, sys, tempfile
sys.path.insert(0, os.environ.get("ROPE", "/repo"))
import warnings; warnings.simplefilter("ignore")
from rope.base import libutils
from rope.base.project import Project
from rope.refactor.rename import Rename

src = "def outer():\n    x = 1\n    class K:\n        x = 'attr'\n        def m(self):\n            nonlocal x\n            x = 2\n            return x\n    return K().m(), x, K.x\nprint(outer())\n"
bad = 0
d = tempfile.mkdtemp()
try:
    pr = Project(d, ropefolder=None)
    mod = libutils.get_string_module(pr, src)
    outer = mod.get_scope().get_scopes()[0]
    k = outer.get_scopes()[0]
    m = k.get_scopes()[0]
    ok = m.lookup("x") is outer.get_names()["x"]
    print("OK " if ok else "BAD", "lookup('x') from m gives outer's x:", ok)
    bad += not ok
    r = pr.root.create_file("a.py")
    r.write(src)
    pr.do(Rename(pr, r, src.index("x = 1")).get_changes("zz"))
    out = r.read()
    r0 = subprocess.run([sys.executable, "-c", src], capture_output=True, text=True)
    r1 = subprocess.run([sys.executable, "-c", out], capture_output=True, text=True)
    ok = (r0.stdout, r0.returncode) == (r1.stdout, r1.returncode)
    print("OK " if ok else "BAD", "renamed program behaves the same", "" if ok else r1.stderr.strip().splitlines()[-1:])
    bad += not ok
    pr.close()
finally:
    shutil.rmtree(d)
sys.exit(1 if bad else 0)
