"""R16.14 (= R12.16): ChangeContents.do() captured `self.resource.newlines` as the convention of the text it replaces -- before
anything had read the file.  For a change rebuilt from the saved history (old_contents is known, so do() does not read) the
attribute is None: a redo after a reopen overwrote the saved convention with None, and after another close/reopen the undo
restored the CRLF file with LF line ends."""
import os, shutil, sys, tempfile
sys.path.insert(0, os.environ.get("ROPE", "/repo"))
import warnings; warnings.simplefilter("ignore")
from rope.base.project import Project
d = tempfile.mkdtemp()
try:
    path = os.path.join(d, "mod.py")
    original = b"a = 1\r\nb = 2\r\n"
    open(path, "wb").write(original)
    def opened():
        return Project(d, save_history=True)
    pr = opened(); pr.get_file("mod.py").write("a = 1"); pr.history.undo(); pr.close()
    pr = opened(); pr.history.redo(); pr.close()
    pr = opened(); pr.history.undo(); pr.close()
    got = open(path, "rb").read()
    print("restored:", got)
    ok = got == original
    print("OK" if ok else "the line ends were not restored")
    sys.exit(0 if ok else 1)
finally:
    shutil.rmtree(d)
