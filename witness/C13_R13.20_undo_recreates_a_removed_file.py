"""C13: a long-lived project must answer like a freshly opened one.

Sequence (all of it inside the quantifier of the property):

  1. user.py is changed through rope            (an undoable ChangeContents)
  2. query: project.get_files()                 (file list cached)
  3. user.py is removed behind rope's back, project.validate()
  4. query: project.get_files()                 (file list cached again: user.py gone)
  5. project.history.undo()                     (the undo writes the old text back and
                                                 thereby re-creates user.py on disk)
  6. query: get_files / get_python_files / find_occurrences

The undo re-creates the file but the only event rope sends is "changed";
the file list cache ignores "changed" for files, so the long-lived project
does not list a Python file that exists on disk.  Everything that walks the
file list (find occurrences, rename, ...) silently skips it.

exit 0: property holds, exit 1: violated.
"""
import os as _os, sys as _sys; _sys.path.insert(0, _os.environ.get("ROPE", "/repo"))  # the tree under test

import os
import shutil
import subprocess
import sys
import tempfile

from rope.base.project import Project
from rope.contrib import findit
from rope.refactor.rename import Rename

MOD = "def helper():\n    return 1\n"
USER_OLD = "from mod import helper\nprint(helper())\n"
USER_NEW = "from mod import helper\nvalue = helper()\nprint(value)\n"


def disk_files(root):
    result = []
    for dirpath, dirnames, filenames in os.walk(root):
        for name in filenames:
            full = os.path.join(dirpath, name)
            result.append(os.path.relpath(full, root).replace(os.sep, "/"))
    return sorted(result)


def answers(project):
    mod = project.get_resource("mod.py")
    offset = mod.read().index("helper")
    occurrences = sorted(
        (location.resource.path, location.offset)
        for location in findit.find_occurrences(project, mod, offset)
    )
    return {
        "get_files": sorted(f.path for f in project.get_files()),
        "get_python_files": sorted(f.path for f in project.get_python_files()),
        "occurrences of helper": occurrences,
    }


def main():
    root = tempfile.mkdtemp(prefix="c13h21-")
    copy = tempfile.mkdtemp(prefix="c13h21-copy-")
    violated = False
    try:
        with open(os.path.join(root, "mod.py"), "w") as f:
            f.write(MOD)
        with open(os.path.join(root, "user.py"), "w") as f:
            f.write(USER_OLD)

        warm = Project(root, ropefolder=None)
        # 1. a change through rope
        warm.get_resource("user.py").write(USER_NEW)
        # 2. a query
        print("after the write      :", sorted(f.path for f in warm.get_files()))
        # 3. removal behind rope's back, then validation
        os.remove(os.path.join(root, "user.py"))
        warm.validate()
        # 4. a query (correct at this point: user.py is gone)
        print("after rm + validate  :", sorted(f.path for f in warm.get_files()))
        # 5. undo the write of step 1: user.py is written again
        warm.history.undo()
        print("on disk after undo   :", disk_files(root))
        with open(os.path.join(root, "user.py")) as f:
            print("user.py on disk      :", repr(f.read()))

        # 6. the same queries on the long-lived project and on a new one
        shutil.rmtree(copy)
        shutil.copytree(root, copy)
        fresh = Project(copy, ropefolder=None)
        warm_answers = answers(warm)
        fresh_answers = answers(fresh)
        for key in warm_answers:
            same = warm_answers[key] == fresh_answers[key]
            print("%-22s warm : %s" % (key, warm_answers[key]))
            print("%-22s fresh: %s%s" % ("", fresh_answers[key], "" if same else "   <-- DIFFERENT"))
            if not same:
                violated = True
        # oracle that does not use rope at all: the files on disk
        if warm_answers["get_files"] != disk_files(root):
            print("get_files() of the long-lived project != files on disk", disk_files(root))
            violated = True

        # consequence: a rename done by the long-lived project breaks the program
        before = subprocess.run(
            [sys.executable, "user.py"], cwd=root, capture_output=True, text=True
        )
        mod = warm.get_resource("mod.py")
        changes = Rename(warm, mod, mod.read().index("helper")).get_changes("assist")
        warm.do(changes)
        after = subprocess.run(
            [sys.executable, "user.py"], cwd=root, capture_output=True, text=True
        )
        print("python user.py before the rename: rc=%d out=%r" % (before.returncode, before.stdout))
        print(
            "python user.py after  the rename: rc=%d out=%r err=%r"
            % (after.returncode, after.stdout, after.stderr.strip().splitlines()[-1:])
        )
        if (before.returncode, before.stdout) != (after.returncode, after.stdout):
            print("the rename skipped user.py: the program no longer runs")
            violated = True
        fresh.close()
        warm.close()
    finally:
        shutil.rmtree(root, ignore_errors=True)
        shutil.rmtree(copy, ignore_errors=True)
    print("VIOLATED" if violated else "property holds")
    return 1 if violated else 0


if __name__ == "__main__":
    sys.exit(main())
