"""R01.4 (second half): a tuple-assignment target such as `b` in `a, b = 1, 2` *looks* like a call keyword to the word
finder (preceded by ',', followed by '=') but is in no call: it must stay resolvable.  Commit f83738a (the first R01.4
repair) returned "unresolvable" for every such word; this script exits 0 when rename from each position is consistent."""
import os, shutil, subprocess, sys, tempfile
sys.path.insert(0, os.environ.get("ROPE", "/repo"))
from rope.base.project import Project
from rope.refactor.rename import Rename

CASES = [
    ("x = 0\na, b = 1, 2\nprint(a, b)\n", "b"),
    ("def f():\n    a, b = 1, 2\n    return a + b\nprint(f())\n", "b"),
    ("pairs = [(1, 2)]\nfor a, b in pairs:\n    print(a, b)\nq, r = divmod(7, 2)\nprint(q, r)\n", "r"),
    ("from nowhere_xyz import make\n" if False else "def make(**kw):\n    return sorted(kw)\nwidth = 3\nprint(make(width=width))\n", "width"),
]
bad = 0
for src, name in CASES:
    d = tempfile.mkdtemp()
    try:
        open(os.path.join(d, "m.py"), "w").write(src)
        before = subprocess.run([sys.executable, "m.py"], cwd=d, capture_output=True, text=True)
        outs = set()
        import re
        offsets = [m.start() for m in re.finditer(r"\b%s\b" % name, src)]
        for off in offsets:
            pr = Project(d)
            m = pr.get_resource("m.py")
            m.write(src)
            try:
                pr.do(Rename(pr, m, off).get_changes("zz"))
                after = subprocess.run([sys.executable, "m.py"], cwd=d, capture_output=True, text=True)
                ok = after.returncode == 0 and after.stdout == before.stdout
                outs.add(m.read())
                if not ok:
                    print("BROKEN from offset", off, repr(m.read()), after.stderr.strip().splitlines()[-1:])
                    bad += 1
            except Exception as e:
                # the call keyword itself (make(width=...)) may be refused; a plain variable or target may not
                line = src[:off].count("\n")
                is_kw = "make(" in src.splitlines()[line] and src[off - 1] == "("
                if not is_kw:
                    print("REFUSED from offset", off, type(e).__name__, e)
                    bad += 1
            finally:
                pr.close()
        if len(outs) > 1:
            print("query-point dependent results for", name)
            bad += 1
    finally:
        shutil.rmtree(d)
sys.exit(1 if bad else 0)
