"""Corpus validation used while repairing C08 findings (demonstration, not a check): for every file of the corpus,
annotate with the patched AST and report write-back equality, nodes without region, and regions outside the parent's."""
import ast, os, sys, warnings, glob
from rope.refactor import patchedast
warnings.simplefilter("ignore")
roots = sys.argv[1:] or ["/repo/rope", "/repo/ropetest"]
files = []
for r in roots:
    files += [r] if r.endswith(".py") else sorted(glob.glob(os.path.join(r, "**", "*.py"), recursive=True))
tot = {"files": 0, "crash": 0, "writeback_bad": 0, "noregion": 0, "outside": 0, "nodes": 0}
kinds = {}
for fn in files:
    try:
        src = open(fn, encoding="utf-8").read()
        tree0 = ast.parse(src)
    except Exception:
        continue
    tot["files"] += 1
    try:
        tree = patchedast.get_patched_ast(src, True)
    except Exception as e:
        tot["crash"] += 1; print("CRASH", fn, type(e).__name__, str(e)[:80]); continue
    if patchedast.write_ast(tree) != src:
        tot["writeback_bad"] += 1; print("WRITEBACK", fn)
    for n in ast.walk(tree):
        if isinstance(n, (ast.expr_context, ast.operator, ast.boolop, ast.unaryop, ast.cmpop, ast.Module)):
            continue
        tot["nodes"] += 1
        if not hasattr(n, "region"):
            tot["noregion"] += 1; kinds[type(n).__name__] = kinds.get(type(n).__name__, 0) + 1
            continue
        for c in ast.iter_child_nodes(n):
            if hasattr(c, "region") and not (n.region[0] <= c.region[0] and c.region[1] <= n.region[1]):
                tot["outside"] += 1
print(tot)
print("nodes without region by type:", dict(sorted(kinds.items(), key=lambda kv: -kv[1])))
