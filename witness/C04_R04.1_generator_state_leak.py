"""F-C04-1: inlining f at two call sites: the keyword value of the first call leaks into the second."""
import tempfile, shutil
from rope.base.project import Project
from rope.refactor.inline import create_inline
root = tempfile.mkdtemp()
p = Project(root)
m = p.root.create_file("m.py")
src = "def f(a, b=1):\n    return a + b\n\nx = f(1, b=2)\ny = f(3)\n"
m.write(src)
p.do(create_inline(p, m, src.index("f(a")).get_changes())
out = m.read()
print(out)
ns = {}; exec(out, ns)
ok = ns["x"] == 3 and ns["y"] == 4
print("x,y =", ns["x"], ns["y"], "(expected 3, 4)")
p.close(); shutil.rmtree(root)
raise SystemExit(0 if ok else 1)
