"""R14.10: the word finder recognises `from .mod import x` by looking at the four characters before the dot.  Without a
word-boundary test, the attribute of any variable whose name ends in "from" (copied_from.path) was cut off from its
object: the dotted expression at that offset was ".path" and evaluating it raised BadIdentifierError."""
import os, shutil, sys, tempfile
sys.path.insert(0, os.environ.get("ROPE", "/repo"))
import warnings; warnings.simplefilter("ignore")
from rope.base import worder
src = "copied_from = [1]\nprint(copied_from.count(1))\nfrom .mod import name\nfrom . import other\n"
w = worder.Worder(src)
off = src.index("count")
got = w.get_primary_at(off)
rel = w.get_primary_at(src.index("mod"))
print(repr(got), repr(rel))
sys.exit(0 if got == "copied_from.count" and rel.endswith("mod") else 1)
