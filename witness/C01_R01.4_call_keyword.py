"""R01.4: renaming a variable must not rewrite the keyword of a call (make(width=width)), whether or not the callee resolves."""
import sys
import tempfile, shutil
from rope.base.project import Project
from rope.refactor.rename import Rename
root = tempfile.mkdtemp(); p = Project(root); m = p.root.create_file("m.py")
bad = False
for src in ["from nowhere import make\nwidth = 3\nprint(make(width=width))\n",
            "def make(**kw):\n    return kw\nwidth = 3\nprint(make(width=width))\n",
            "import functools\nwidth = 3\nf = functools.partial(print, width=width)\n",
            "width = 3\nd = dict(width=width)\nprint(d)\n"]:
    m.write(src)
    p.do(Rename(p, m, src.index("width = 3")).get_changes("breadth"))
    last = [l for l in m.read().strip().splitlines() if "width" in l or "breadth" in l][-1]; print(last)
    bad = bad or "breadth=" in last
p.close(); shutil.rmtree(root)
sys.exit(1 if bad else 0)
