"""R03.8: extracting a region that contains `async for` yields a plain `def` -> the module no longer compiles.
(The pinned test suite asserts exactly this output: extracttest.test_extract_refactor_containing_async_for_loop_is_supported_after_py38,
so the defect cannot be repaired without editing the suite; recorded as a finding.)"""
import tempfile, shutil, sys
from rope.base.project import Project
from rope.refactor.extract import ExtractMethod
root = tempfile.mkdtemp(); p = Project(root); m = p.root.create_file("m.py")
src = "async def my_func(my_list):\n    async for x in my_list:\n        var = x + 1\n    return var\n"
m.write(src)
s = src.index("    async for"); e = src.index("    return var") - 1
p.do(ExtractMethod(p, m, s, e).get_changes("new_func"))
out = m.read(); print(out)
try:
    compile(out, "m.py", "exec"); ok = True
except SyntaxError as ex:
    print("SyntaxError:", ex.msg); ok = False
p.close(); shutil.rmtree(root)
sys.exit(0 if ok else 1)
