"""F-C16-1 = F-C12-1: CRLF file, edit, close, reopen, history.undo() => file comes back with LF endings."""
import os, tempfile, shutil
from rope.base.project import Project
from rope.base import change
root = tempfile.mkdtemp()
path = os.path.join(root, "a.py")
open(path, "wb").write(b"x = 1\r\ny = 2\r\n")
p = Project(root, save_history=True)
f = p.get_file("a.py")
p.do(change.ChangeContents(f, f.read().replace("x = 1", "x = 10")))
after_edit = open(path, "rb").read()
p.close()
q = Project(root, save_history=True)
q.history.undo()
after_undo = open(path, "rb").read()
q.close()
print("after edit:", after_edit, "| after reopen+undo:", after_undo)
ok = after_undo == b"x = 1\r\ny = 2\r\n"
shutil.rmtree(root)
raise SystemExit(0 if ok else 1)
