"""R04.9 = R03.18: re-indenting and joining code cut it with str.splitlines(), which also breaks at form feed, \\x1c-\\x1e,
\\x85, U+2028 and U+2029 -- ordinary characters inside a string literal.  Inlining a function into a deeper block wrote the
new indentation INTO the literal; extracting an expression that spans lines replaced the character by a space."""
import os, shutil, subprocess, sys, tempfile
sys.path.insert(0, os.environ.get("ROPE", "/repo"))
import warnings; warnings.simplefilter("ignore")
from rope.base.project import Project
from rope.refactor.extract import ExtractVariable
from rope.refactor.inline import create_inline


def run(src):
    r = subprocess.run([sys.executable, "-c", src], capture_output=True, text=True)
    return r.stdout, r.returncode


bad = 0
for ch in ("\u2028", "\x0c", "\x1c", "\x85"):
    cases = []
    src = f"def g():\n    s = 'a{ch}   b'\n    print(repr(s))\ndef f(c):\n    if c:\n        if c:\n            g()\nf(1)\n"
    cases.append(("inline into a deeper block", src, lambda p, m, s=src: create_inline(p, m, s.index("g()")).get_changes()))
    src = f"def f(c):\n    if c:\n        x = ('a{ch}   b' +\n             'c')\n        print(repr(x))\nf(1)\n"
    cases.append(("extract an expression over two lines", src,
                  lambda p, m, s=src: ExtractVariable(p, m, s.index("('a"), s.index("'c')") + 4).get_changes("v")))
    for title, src, make in cases:
        d = tempfile.mkdtemp()
        try:
            pr = Project(d, ropefolder=None)
            m = pr.root.create_file("m.py")
            m.write(src)
            pr.do(make(pr, m))
            out = m.read()
            pr.close()
            ok = run(src) == run(out)
            print("OK " if ok else "BAD", title, repr(ch), "" if ok else repr(out))
            bad += not ok
        finally:
            shutil.rmtree(d)
sys.exit(1 if bad else 0)
