"""Detection must not depend on form either: the whole tree is transformed (sa/transforms.py), then every AST mutant of
sa/astmut.py is applied ON the transformed tree and must still be reported.  (Seed patches are textual and mostly do
not apply to a reformatted tree; they are skipped here.)
usage: robustness_detect_after_transform.py [kind]"""
import os, shutil, sys, tempfile
sys.path.insert(0, "/verif")
kind = sys.argv[1] if len(sys.argv) > 1 else "swap-if-else"
from sa import transforms
tmp = tempfile.mkdtemp(prefix="verif-dat-")
shutil.copytree("/repo/rope", os.path.join(tmp, "rope"), ignore=shutil.ignore_patterns("__pycache__"))
print(kind, "sites:", transforms.transform_tree(tmp, kind))
os.environ["VERIF_REPO"] = tmp
from concurrent.futures import ProcessPoolExecutor
from sa.run import PROPS


def one(p):
    from sa import mutations, report
    result = {"variants": 0, "detected": 0, "failed": [], "skipped": [], "names": []}
    known = {k["key"] for k in report.load_known() if k.get("property") == p and k.get("status") == "open"}
    try:
        mutations._ast_variants(p, known, result)
    except Exception as e:
        result["failed"].append(f"{type(e).__name__}: {e}")
    return p, result


if __name__ == "__main__":
    try:
        tv = td = 0
        with ProcessPoolExecutor(16) as ex:
            for p, r in ex.map(one, PROPS):
                tv += r["variants"]; td += r["detected"]
                for f in r["failed"]:
                    print("  ", p, "MISSED", f[:230])
                for f in r["skipped"]:
                    print("  ", p, "skipped", f[:120])
        print("mutants applied", tv, "detected", td)
    finally:
        shutil.rmtree(tmp, ignore_errors=True)
