#!/bin/bash
# usage: tools/robustness_rename_private.sh [name...]   -- for each private function / class name of rope (default: every one that a rule
# mentions by name, see sa/transforms.names_mentioned_by_rules): a scratch copy of /repo/rope with that ONE name renamed everywhere, all 20
# quick checks against it.  Every line must end in rc=0: renaming a private helper is a harmless edit (the index finds it again by its shape,
# sa/anchors.json).  Scratch copies live under /tmp and are removed.
cd /verif
if [ $# -eq 0 ]; then
  set -- $(/venv/bin/python -c "import sys; sys.path.insert(0,'/verif'); from sa import transforms; print(' '.join(sorted(transforms.names_mentioned_by_rules())))")
fi
one() {
  N=$1; T=$(mktemp -d /tmp/verif-ren-XXXX); cp -r /repo/rope $T/rope
  grep -rl --include=*.py "\b$N\b" $T/rope | xargs -r sed -i "s/\b$N\b/${N}_rn/g"
  VERIF_REPO=$T /venv/bin/python -m sa.run all --no-write > $T/out.txt 2>&1; rc=$?
  echo "$N rc=$rc $(grep -E 'ANALYSIS-ERROR|VIOLATION' $T/out.txt | cut -c1-140 | tr '\n' '|')"
  rm -rf $T
}
export -f one
printf "%s\n" "$@" | xargs -P 12 -I{} bash -c 'one {}'
