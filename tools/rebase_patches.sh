#!/bin/bash
# usage: tools/rebase_patches.sh  -- after a fix commit in /repo: every kept seed / benign patch that no longer applies exactly is
# re-applied with fuzz in a scratch worktree of /repo HEAD and regenerated; the ones that need a manual port are listed
T=$(mktemp -d /tmp/rb-XXXX); git -C /repo worktree add -q --detach $T/wt HEAD
cd $T/wt
for p in /verif/seeded/*/patch.diff /verif/benign/*/p*.diff; do
  git apply --check $p 2>/dev/null && continue
  git checkout -q -- . ; git clean -qfd
  if patch -p1 -s -F3 -i $p >/dev/null 2>&1; then
    find . -name "*.orig" -delete
    if /venv/bin/python -m compileall -q rope >/dev/null 2>&1; then git diff > $p; echo "rebased $p"; else echo "MANUAL (does not compile) $p"; fi
  else
    find . -name "*.rej" -delete; find . -name "*.orig" -delete
    echo "MANUAL $p"
  fi
done
git checkout -q -- . ; cd /; git -C /repo worktree remove --force $T/wt; rm -rf $T
