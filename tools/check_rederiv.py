import sys, tokenize, re, time
sys.path.insert(0,'/verif')
from sa.rederiv import Engine, EPS
E=Engine()
ED=E
long_r = r'"""(\\.|"(?!"")|\\\n|[^"\\])*"""'
short_r = r'"(\\.|\\\n|[^"\\\n])*"'
R = "|".join([long_r, long_r.replace('"',"'"), short_r, short_r.replace('"',"'")])
T = "|".join(['"""'+tokenize.Double3, "'''"+tokenize.Single3, r"'[^\n'\\]*(?:\\.[^\n'\\]*)*'", r'"[^\n"\\]*(?:\\.[^\n"\\]*)*"'])
r = E.term(R)
# share sigma/universe: compile T in a dotall engine but same universe -> terms are plain tuples, engines differ only in char sets
t = E.term(T, dotall=True)
t0=time.time()
print("T<=R", E.included(t, r), time.time()-t0)
t0=time.time()
print("R<=T", E.included(r, t), time.time()-t0)
bad = R.replace('(?!"")','(?!")').replace("(?!'')","(?!')")
print("T<=bad", E.included(t, E.term(bad)))
bad2 = R.replace(r'|\\\n|[^"\\])*"""', r'|[^"\\])*"""')
print("T<=bad2", E.included(t, E.term(bad2)))
for w in ['"""a "" b"""', '"a"', '"""a"""b"""', "'''x''''", '""', '"\\\n"']:
    print(repr(w), E.accepts(r,w), E.accepts(t,w), bool(re.fullmatch(R,w)), bool(re.fullmatch(T,w,re.S)))
import itertools
pats=[(R,False),(T,True),(bad,False),(r'a(?=b)[ab]*',False),(r'(a(?!bb)|b)*c?',False),(r'(?:a|(?=.b)..)*',False),(r'[bBfFrRuU]{,4}x',False),(r'(ab?){1,2}(?!a).?',False)]
for pat,da in pats:
    tm=E.term(pat,dotall=da)
    sig = ['"',"'",'\\','\n','x'] if '"' in pat else ['a','b','c','x']
    n=0
    for L in range(0,8 if len(sig)==4 else 7):
        for w in itertools.product(sig,repeat=L):
            w=''.join(w); n+=1
            assert E.accepts(tm,w)==bool(re.fullmatch(pat,w,re.S if da else 0)), (pat,w)
    print('agree',n,pat[:30])
