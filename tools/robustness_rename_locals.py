"""False-alarm resistance (2): every function-local variable of rope (assigned in the function, not a parameter, not
global/nonlocal) is renamed to <name>_r in a scratch copy.  Checks may lose an anchor (ANALYSIS-ERROR / undecided), but
must not report a NEW violation: a rule that fires on an alpha-renaming is a text match in disguise."""
import ast, os, shutil, sys, tempfile
sys.path.insert(0, "/verif")
from sa.run import Ctx, load_rules, PROPS
from sa import report
from sa.core import AnalysisError

class Renamer(ast.NodeTransformer):
    def visit_FunctionDef(self, node):
        params = {a.arg for a in node.args.posonlyargs + node.args.args + node.args.kwonlyargs}
        if node.args.vararg: params.add(node.args.vararg.arg)
        if node.args.kwarg: params.add(node.args.kwarg.arg)
        declared = set()
        assigned = set()
        def walk(n):
            for c in ast.iter_child_nodes(n):
                if isinstance(c, (ast.FunctionDef, ast.AsyncFunctionDef, ast.ClassDef, ast.Lambda)):
                    continue
                if isinstance(c, (ast.Global, ast.Nonlocal)):
                    declared.update(c.names)
                if isinstance(c, ast.Name) and isinstance(c.ctx, ast.Store):
                    assigned.add(c.id)
                walk(c)
        walk(node)
        targets = assigned - params - declared
        class R(ast.NodeTransformer):
            def visit_Name(s, n):
                if n.id in targets:
                    n.id = n.id + "_r"
                return n
        for i, st in enumerate(node.body):
            node.body[i] = R().visit(st)
        self.generic_visit(node)
        return node
    visit_AsyncFunctionDef = visit_FunctionDef

def run(root):
    ctx = Ctx("quick", 0, root=root)
    out = {}
    for p in PROPS:
        r = report.Results(p)
        try:
            load_rules(p).check(ctx, r)
            out[p] = ("ok", {i.key for i in r.instances if i.status == "fail"}, len([i for i in r.instances if i.status == "undecided"]))
        except AnalysisError as e:
            out[p] = ("analysis-error", str(e)[:100], 0)
        except Exception as e:
            out[p] = ("crash", f"{type(e).__name__}: {e}"[:100], 0)
    return out
tmp = tempfile.mkdtemp(prefix="verif-rename-")
try:
    shutil.copytree("/repo/rope", os.path.join(tmp, "rope"), ignore=shutil.ignore_patterns("__pycache__"))
    for d, _, fs in os.walk(os.path.join(tmp, "rope")):
        for f in fs:
            if f.endswith(".py"):
                p = os.path.join(d, f)
                t = Renamer().visit(ast.parse(open(p, encoding="utf-8").read()))
                ast.fix_missing_locations(t)
                src = ast.unparse(t) + "\n"
                compile(src, p, "exec")
                open(p, "w", encoding="utf-8").write(src)
    a, b = run(None), run(tmp)
    bad = 0
    for p in PROPS:
        if b[p][0] != "ok":
            print(p, b[p][0], b[p][1])
        else:
            new = b[p][1] - a[p][1]
            if new:
                bad += 1
                print(p, "NEW VIOLATIONS after alpha-renaming:", sorted(new)[:5])
            elif b[p][2] != a[p][2] or b[p][1] != a[p][1]:
                print(p, "differs (no new violation): fails", len(a[p][1]), "->", len(b[p][1]), "undecided", a[p][2], "->", b[p][2])
    print("properties with new violations:", bad)
    sys.exit(1 if bad else 0)
finally:
    shutil.rmtree(tmp, ignore_errors=True)
