"""usage: try_edit.py <prop[,prop]> <relpath> <old> <new> [count]  -- apply a textual replacement to a scratch copy of /repo/rope
and print the NEW violations of the given properties (diagnostic helper for triaging mutation candidates)."""
import os, shutil, sys, tempfile
sys.path.insert(0, "/verif")
from sa import report
from sa.run import Ctx, load_rules
props, rel, old, new = sys.argv[1].split(","), sys.argv[2], sys.argv[3], sys.argv[4]
old = old.encode().decode("unicode_escape"); new = new.encode().decode("unicode_escape")
tmp = tempfile.mkdtemp(prefix="verif-tryedit-")
try:
    shutil.copytree("/repo/rope", os.path.join(tmp, "rope"), ignore=shutil.ignore_patterns("__pycache__"))
    p = os.path.join(tmp, rel)
    s = open(p).read()
    if s.count(old) < 1:
        print("OLD TEXT NOT FOUND"); sys.exit(2)
    s = s.replace(old, new, 1)
    compile(s, rel, "exec")
    open(p, "w").write(s)
    for prop in props:
        known = {k["key"] for k in report.load_known() if k.get("property") == prop and k.get("status") == "open"}
        def run(root):
            r = report.Results(prop)
            try:
                load_rules(prop).check(Ctx("quick", 0, root=root), r)
            except Exception as e:
                return {("ANALYSIS-ERROR", str(e)[:100])}
            return {(i.rule, i.key) for i in r.instances if i.status == report.FAIL and i.key not in known}
        newv = run(tmp) - run(None)
        print(prop, "NEW:", sorted(newv)[:4] if newv else "nothing")
finally:
    shutil.rmtree(tmp, ignore_errors=True)
