"""usage: pin_anchors.py  -- writes /verif/sa/anchors.json: for every private function / method of /repo/rope (one leading underscore,
lower-case: not the `_For`-style visitor handlers, which are found through getattr) its owner (module, class) and a bag of shape features.
The index uses the table to recognise a RENAMED private function (core.Index._canonicalise_renamed_anchors): the rules name the functions
they read, and a rename of a private helper is the most common harmless edit.  Re-run after a repair that adds or removes private functions."""
import json, sys
sys.path.insert(0, "/verif")
from sa.core import Index, function_shape, class_shape, is_pinnable

idx = Index("/repo", canonicalise=False)
out = {}
for f in idx.functions.values():
    if f.parent is not None or not is_pinnable(f.name):
        continue
    owner = f.cls.qualname if f.cls is not None else f.unit.modname
    out.setdefault(owner, {})[f.name] = sorted(function_shape(f.node))
classes = {}
for c in idx.classes.values():
    if c.name.startswith("_") and not c.name.startswith("__") and "." not in c.qualname[len(c.unit.modname) + 1:]:
        classes.setdefault(c.unit.modname, {})[c.name] = sorted(class_shape(c.node))
out["<classes>"] = classes
json.dump(out, open("/verif/sa/anchors.json", "w"), indent=0, sort_keys=True)
print(sum(len(v) for v in classes.values()), "private classes pinned")
print(sum(len(v) for v in out.values()), "private functions pinned in", len(out), "owners")
