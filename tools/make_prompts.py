"""usage: make_prompts.py <template> <outdir> <suffix> [<prop>...]  -- one prompt per property from a template with the slots
__WT__ (scratch worktree /tmp/wt/<ID>), __ID__ (<prop><suffix>), __PROP__ (the property's text from properties.jsonl),
__USED__ (one line per earlier seed of the property, from seeded/<prop>-*/meta.json) and __FOCUS__ (left empty).  Creates the
worktrees (git -C /repo worktree add --detach) and /tmp/seed/<ID>."""
import glob, json, os, subprocess, sys

tmpl, outdir, suffix = sys.argv[1:4]
only = [a for a in sys.argv[4:] if not a.startswith("--")]
opts = dict(a[2:].split("=", 1) for a in sys.argv[4:] if a.startswith("--"))  # --focus=<json: prop -> text>  --out=<dir made per id, default /tmp/seed>
focus = json.load(open(opts["focus"])) if "focus" in opts else {}
os.makedirs(outdir, exist_ok=True)
props = [json.loads(l) for l in open("/verif/properties.jsonl")]
for p in props:
    if only and p["id"] not in only:
        continue
    ident = p["id"] + suffix
    text = "\n".join([f"{p['id']}: {p['title']}", "", "Statement: " + p["statement"], "", "Quantifier: " + p["quantifier"]["text"], "",
                      "Why tests cannot settle it: " + p["why_tests_cant"], "", "Anchors: " + json.dumps(p["anchors"], indent=1)])
    used = []
    for m in sorted(glob.glob(f"/verif/seeded/{p['id']}-*/meta.json")):
        used.append("  - " + json.load(open(m)).get("summary", "")[:400])
    if "benign" in tmpl:
        used = []
        for m in sorted(glob.glob(f"/verif/benign/{p['id']}-r*/notes.json")):
            try:
                used += ["  - " + str(e.get("where", ""))[:120] + " (" + str(e.get("kind", ""))[:60] + ")" for e in json.load(open(m))]
            except Exception:
                pass
        used = used[-40:]
    wt = f"/tmp/wt/{ident}"
    if not os.path.isdir(wt):
        os.makedirs("/tmp/wt", exist_ok=True)
        subprocess.run(["git", "-C", "/repo", "worktree", "add", "--detach", wt, "HEAD"], check=True, capture_output=True)
    os.makedirs(os.path.join(opts.get("out", "/tmp/seed"), ident), exist_ok=True)
    s = open(tmpl).read().replace("__WT__", wt).replace("__ID__", ident).replace("__PROP__", text) \
        .replace("__USED__", "\n".join(used) or "  (none)").replace("__FOCUS__", focus.get(p["id"], "  (none)"))
    open(os.path.join(outdir, ident + ".txt"), "w").write(s)
    print(ident, len(s))
