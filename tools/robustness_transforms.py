"""False-alarm resistance (3): a behaviour-preserving AST transformation (sa/transforms.py) applied to EVERY module of a
scratch copy of rope; the checks are then run on the copy.  A NEW fail or undecided instance, or an ANALYSIS-ERROR, is
printed: it is a verdict that depends on the way the code is written rather than on what it does.
usage: robustness_transforms.py [swap-if-else|else-after-return|split-and|name-the-test] [props]"""
import os, shutil, sys, tempfile
sys.path.insert(0, "/verif")
from sa.run import Ctx, load_rules, PROPS
from sa import report, transforms

kind = sys.argv[1] if len(sys.argv) > 1 else "swap-if-else"
props = sys.argv[2].split(",") if len(sys.argv) > 2 else list(PROPS)


def run(root):
    ctx = Ctx("quick", 0, root=root)
    out = {}
    for p in props:
        r = report.Results(p)
        try:
            load_rules(p).check(ctx, r)
            out[p] = {(i.key, i.status): i for i in r.instances}
        except Exception as e:
            out[p] = f"{type(e).__name__}: {str(e)[:200]}"
    return out


tmp = tempfile.mkdtemp(prefix="verif-transform-")
try:
    shutil.copytree("/repo/rope", os.path.join(tmp, "rope"), ignore=shutil.ignore_patterns("__pycache__"))
    print(kind, "sites transformed:", transforms.transform_tree(tmp, kind))
    a, b = run(None), run(tmp)
    bad = 0
    for p in props:
        if isinstance(b[p], str):
            print(p, "ANALYSIS-ERROR", b[p]); bad += 1; continue
        for (k, st), i in sorted(b[p].items()):
            if st != "ok" and (k, st) not in a[p]:
                print(p, st.upper(), k, "@", i.where, "--", i.what[:160]); bad += 1
    print("alarms:", bad)
finally:
    shutil.rmtree(tmp, ignore_errors=True)
