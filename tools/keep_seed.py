"""usage: keep_seed.py <seed dir> <name> <caught_by or ''> [history] -- copies a confirmed seeded change into /verif/seeded/<name>/"""
import json, os, shutil, sys
src, name, caught = sys.argv[1], sys.argv[2], sys.argv[3]
dst = f"/verif/seeded/{name}"
os.makedirs(dst, exist_ok=True)
for f in ("patch.diff", "demo.py"):
    shutil.copy(os.path.join(src, f), os.path.join(dst, f))
meta = json.load(open(os.path.join(src, "meta.json")))
meta["confirmed_by_me"] = {
    "how": "tools/try_seed.sh: fresh scratch worktree of /repo HEAD; demo.py exit 0 without the patch and non-zero with it; "
           "full test suite (pytest -n 8) 2104 passed with the patch; then git -C /repo apply, quick checks, git checkout -- .",
    "detected_by": caught,
}
if len(sys.argv) > 4:
    meta["confirmed_by_me"]["history"] = sys.argv[4]
    meta["confirmed_by_me"]["how"] = ("tools/eval_seeds.py: own scratch worktree of /repo HEAD; demo.py exit 0 without the patch and 1 with it; full test suite "
                                      "2104 passed with the patch; the property's check run against that worktree (VERIF_REPO); /repo untouched")
json.dump(meta, open(os.path.join(dst, "meta.json"), "w"), indent=1)
print("kept", dst)
