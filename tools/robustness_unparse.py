"""False-alarm resistance: re-run every check on a scratch copy of /repo/rope in which every module has been replaced by
ast.unparse(ast.parse(source)) (comments, formatting, line numbers, quoting all change; behaviour does not).  The set of
(rule key, status) pairs must be identical to the one on the real tree."""
import ast, os, shutil, sys, tempfile
sys.path.insert(0, "/verif")
from sa.run import Ctx, load_rules, PROPS
from sa import report
def results(root):
    ctx = Ctx("quick", 0, root=root)
    out = {}
    for p in PROPS:
        r = report.Results(p)
        load_rules(p).check(ctx, r)
        out[p] = sorted((i.key, i.status) for i in r.instances)
    return out
tmp = tempfile.mkdtemp(prefix="verif-unparse-")
try:
    shutil.copytree("/repo/rope", os.path.join(tmp, "rope"), ignore=shutil.ignore_patterns("__pycache__"))
    n = 0
    for d, _, fs in os.walk(os.path.join(tmp, "rope")):
        for f in fs:
            if f.endswith(".py"):
                p = os.path.join(d, f)
                src = open(p, encoding="utf-8").read()
                open(p, "w", encoding="utf-8").write(ast.unparse(ast.parse(src)) + "\n")
                n += 1
    a, b = results(None), results(tmp)
    bad = 0
    for p in PROPS:
        if a[p] != b[p]:
            bad += 1
            print(p, "DIFFERS:", sorted(set(a[p]) ^ set(b[p]))[:6])
    print(f"{n} modules reformatted; properties with differing results: {bad}")
    sys.exit(1 if bad else 0)
finally:
    shutil.rmtree(tmp, ignore_errors=True)
