import ast, hashlib, json, os, sys
ROPE = sys.argv[1]; OUT = sys.argv[2]; ROOT = sys.argv[3]; CAP = int(sys.argv[4])
sys.path.insert(0, ROPE)
import warnings; warnings.simplefilter("ignore")
from rope.base.project import Project
from rope.refactor.change_signature import ChangeSignature, ArgumentNormalizer, ArgumentDefaultInliner
from rope.refactor import inline
pr = Project(ROOT, ropefolder=None)
res = {}; n = 0
for f in sorted(pr.get_python_files(), key=lambda f: f.path):
    src = f.read()
    try: tree = ast.parse(src)
    except Exception: continue
    lines = src.splitlines(True); starts = [0]
    for l in lines: starts.append(starts[-1] + len(l))
    for fn in ast.walk(tree):
        if not isinstance(fn, (ast.FunctionDef, ast.AsyncFunctionDef)) or n >= CAP: continue
        n += 1
        line = lines[fn.lineno - 1]
        off = starts[fn.lineno - 1] + line.index(fn.name, line.index("def"))
        key = f"{f.path}:{fn.lineno}:{fn.name}"
        try:
            ch = ChangeSignature(pr, f, off).get_changes([ArgumentNormalizer()], resources=[f])
            new = ch.changes[0].new_contents if ch.changes else src
            try: compile(new, "x", "exec"); okc = True
            except SyntaxError: okc = False
            res[key] = [hashlib.md5(new.encode()).hexdigest()[:10], okc, new != src]
        except Exception as ex:
            res[key] = "ERR " + type(ex).__name__ + ": " + str(ex)[:60]
pr.close()
json.dump(res, open(OUT, "w")); print("functions", n)
