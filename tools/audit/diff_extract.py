import ast, hashlib, json, os, sys, time
ROPE = sys.argv[1]; OUT = sys.argv[2]; ROOT = sys.argv[3]; CAP = int(sys.argv[4])
sys.path.insert(0, ROPE)
import warnings; warnings.simplefilter("ignore")
from rope.base.project import Project
from rope.refactor.extract import ExtractMethod
pr = Project(ROOT, ropefolder=None)
res = {}
n = 0
for f in sorted(pr.get_python_files(), key=lambda f: f.path):
    src = f.read()
    try:
        tree = ast.parse(src)
    except Exception:
        continue
    lines = src.splitlines(True)
    starts = [0]
    for l in lines: starts.append(starts[-1] + len(l))
    for fn in ast.walk(tree):
        if not isinstance(fn, (ast.FunctionDef, ast.AsyncFunctionDef)) or n >= CAP:
            continue
        body = fn.body
        for i in range(len(body)):
            for k in (1, 2):
                if i + k > len(body) or n >= CAP: continue
                first, last = body[i], body[i + k - 1]
                if isinstance(first, ast.Expr) and isinstance(first.value, ast.Constant) and i == 0: continue
                s = starts[first.lineno - 1]
                e = starts[last.end_lineno - 1] + len(lines[last.end_lineno - 1].rstrip("\n"))
                key = f"{f.path}:{first.lineno}-{last.end_lineno}"
                n += 1
                try:
                    ch = ExtractMethod(pr, f, s, e).get_changes("extracted_helper_zz")
                    new = ch.changes[0].new_contents
                    try:
                        compile(new, "x", "exec"); okc = True
                    except SyntaxError as ex:
                        okc = False
                    res[key] = [hashlib.md5(new.encode()).hexdigest()[:10], okc]
                except Exception as ex:
                    res[key] = "ERR " + type(ex).__name__ + ": " + str(ex)[:60]
pr.close()
json.dump(res, open(OUT, "w"))
print("regions", n)
