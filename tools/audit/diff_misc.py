import io, json, os, sys, tokenize, keyword, time, re
ROPE = sys.argv[1]; OUT = sys.argv[2]; ROOT = sys.argv[3]
sys.path.insert(0, ROPE)
import warnings; warnings.simplefilter("ignore")
from rope.base.project import Project
from rope.base import worder, codeanalyze, libutils
from rope.refactor.importutils import ImportOrganizer
from rope.refactor import occurrences
pr = Project(ROOT, ropefolder=None)
res = {}
for f in sorted(pr.get_python_files(), key=lambda f: f.path):
    src = f.read()
    out = {}
    try:
        pm = pr.get_pymodule(f)
    except Exception as e:
        res[f.path] = "MODULE-ERR"; continue
    # (f) logical lines
    try:
        ll = pm.logical_lines
        lines = src.count("\n") + 1
        out["logical"] = [list(ll.logical_line_in(i)) for i in range(1, lines + 1, 3)]
    except Exception as e:
        out["logical"] = "ERR " + type(e).__name__
    # (g) assignment type at name tokens
    w = worder.Worder(src)
    asg = {}
    try:
        toks = list(tokenize.generate_tokens(io.StringIO(src).readline))
    except Exception:
        toks = []
    for t in toks:
        if t.type == tokenize.NAME and not keyword.iskeyword(t.string):
            off = pm.lines.get_line_start(t.start[0]) + t.start[1]
            try:
                a = w.get_assignment_type(off)
            except Exception as e:
                a = "ERR " + type(e).__name__
            if a is not None:
                asg[off] = a
    out["assign"] = asg
    # (e) organize imports
    try:
        ch = ImportOrganizer(pr).organize_imports(f)
        out["organize"] = None if ch is None else ch.changes[0].new_contents
    except Exception as e:
        out["organize"] = "ERR " + type(e).__name__ + " " + str(e)[:80]
    res[f.path] = out
# (d) textual occurrences of a few names over all files
for name in ("b", "r", "f", "rb", "node", "self", "x", "e", "u"):
    finder = occurrences.Finder(pr, name)
    tot = {}
    for f in sorted(pr.get_python_files(), key=lambda f: f.path):
        try:
            tot[f.path] = [o.offset for o in finder.find_occurrences(f)]
        except Exception as e:
            tot[f.path] = "ERR " + type(e).__name__
    res["occ:" + name] = tot
pr.close()
json.dump(res, open(OUT, "w"))
print("done")
