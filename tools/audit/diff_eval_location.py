import io, json, os, sys, tokenize, keyword, time
ROPE = sys.argv[1]; OUT = sys.argv[2]; ROOT = sys.argv[3]
sys.path.insert(0, ROPE)
from rope.base.project import Project
from rope.base import evaluate, libutils
import warnings; warnings.simplefilter("ignore")
pr = Project(ROOT, ropefolder=None)
res = {}
files = sorted(pr.get_python_files(), key=lambda f: f.path)
sel = [f for f in files][:int(sys.argv[4]) if len(sys.argv) > 4 else None]
t0 = time.time()
for f in sel:
    src = f.read()
    try:
        pm = pr.get_pymodule(f)
    except Exception as e:
        res[f.path] = "MODULE-ERR " + type(e).__name__; continue
    lines = pm.lines
    out = {}
    try:
        toks = list(tokenize.generate_tokens(io.StringIO(src).readline))
    except Exception:
        continue
    for t in toks:
        if t.type == tokenize.NAME and not keyword.iskeyword(t.string):
            off = lines.get_line_start(t.start[0]) + t.start[1]
            try:
                pn = evaluate.eval_location(pm, off)
                if pn is None:
                    out[off] = None
                else:
                    m, l = pn.get_definition_location()
                    out[off] = [m.get_resource().path if m is not None and m.get_resource() is not None else None, l, type(pn).__name__]
            except Exception as e:
                out[off] = "ERR " + type(e).__name__
    res[f.path] = out
pr.close()
json.dump(res, open(OUT, "w"))
print("done", len(sel), "files", round(time.time() - t0), "s")
