"""usage: diff_fstring.py <rope root> <out.json> <project root>
For every module of the corpus and every name that occurs inside an f-string of it: the candidate offsets the textual
finder yields (occurrences._TextualFinder).  Run once per rope tree and compare the outputs; every offset is also checked
to point at the name (field "bad")."""
import ast, json, sys
ROPE, OUT, ROOT = sys.argv[1:4]
sys.path.insert(0, ROPE)
import warnings; warnings.simplefilter("ignore")
from rope.base.project import Project
from rope.refactor import occurrences
pr = Project(ROOT, ropefolder=None)
res = {}
for f in sorted(pr.get_python_files(), key=lambda f: f.path):
    try:
        src = f.read(); tree = ast.parse(src)
    except Exception:
        continue
    names = set()
    for n in ast.walk(tree):
        if isinstance(n, ast.JoinedStr):
            for x in ast.walk(n):
                if isinstance(x, ast.Name): names.add(x.id)
                if isinstance(x, ast.Attribute): names.add(x.attr)
    out = {}
    for name in sorted(names)[:40]:
        try:
            offs = list(occurrences._TextualFinder(name)._re_search(src))
        except Exception as e:
            out[name] = "ERR " + type(e).__name__; continue
        bad = [o for o in offs if src[o:o + len(name)] != name]
        out[name] = {"offsets": offs, "bad": bad}
    if out:
        res[f.path] = out
json.dump(res, open(OUT, "w"))
print(len(res), "modules with f-strings")
