"""Detection must survive harmless refactorings: for every kept benign patch and every AST mutant of sa/astmut.py that
edits a file the patch touches, the patch is applied to a scratch copy, then the mutant ON TOP of it; the mutant's rule
must still report a new violation (relative to the patched tree).  A mutant whose edit no longer applies after the patch
is skipped.  usage: robustness_detect_after_benign.py [Cxx ...]"""
import ast, glob, os, re, shutil, subprocess, sys, tempfile
sys.path.insert(0, "/verif")
from concurrent.futures import ProcessPoolExecutor
from sa import astmut, report
from sa.run import Ctx, load_rules, PROPS

only = set(sys.argv[1:])


def job(args):
    patch, spec_i = args
    prop, name, rel, edit, rules = astmut.SPECS[spec_i]
    tmp = tempfile.mkdtemp(prefix="verif-dab-")
    try:
        shutil.copytree("/repo/rope", os.path.join(tmp, "rope"), ignore=shutil.ignore_patterns("__pycache__"))
        if subprocess.run(["patch", "-p1", "-s", "-i", patch], cwd=tmp, capture_output=True).returncode != 0:
            return patch, name, "patch-skip"
        def fails(root):
            r = report.Results(prop)
            load_rules(prop).check(Ctx("quick", 0, root=root), r)
            return {i.key for i in r.instances if i.status == report.FAIL and i.rule in rules}
        try:
            base = fails(tmp)
        except Exception as e:
            return patch, name, f"analysis-error on patched tree: {e}"[:200]
        path = os.path.join(tmp, rel)
        tree = ast.parse(open(path).read())
        if not edit(tree):
            return patch, name, "mutant-skip"
        ast.fix_missing_locations(tree)
        src = ast.unparse(tree)
        try:
            compile(src, rel, "exec")
        except SyntaxError:
            return patch, name, "mutant-skip"
        open(path, "w").write(src)
        try:
            new = fails(tmp) - base
        except Exception as e:
            return patch, name, f"analysis-error: {e}"[:200]
        return patch, name, "detected" if new else "MISSED"
    finally:
        shutil.rmtree(tmp, ignore_errors=True)


if __name__ == "__main__":
    jobs = []
    for patch in sorted(glob.glob("/verif/benign/*/p*.diff")):
        touched = set(re.findall(r"^\+\+\+ b/(\S+)", open(patch).read(), re.M))
        for i, (prop, name, rel, edit, rules) in enumerate(astmut.SPECS):
            if rel in touched and (not only or prop in only):
                jobs.append((patch, i))
    print("jobs", len(jobs))
    stats = {}
    with ProcessPoolExecutor(16) as ex:
        for patch, name, st in ex.map(job, jobs, chunksize=4):
            k = st if st in ("detected", "MISSED", "patch-skip", "mutant-skip") else "error"
            stats[k] = stats.get(k, 0) + 1
            if k in ("MISSED", "error"):
                print(" ", "/".join(patch.split("/")[-2:]), name, st)
    print(stats)
