"""usage: keep_witness.py <demo.py> <witness name>  -- copies a demonstration into /verif/witness/, making it honour $ROPE (the
tree to test; default /repo) like the other witnesses"""
import ast, sys
src = open(sys.argv[1]).read()
tree = ast.parse(src)
hook = 'import os as _os, sys as _sys; _sys.path.insert(0, _os.environ.get("ROPE", "/repo"))  # the tree under test\n'
body = tree.body
if body and isinstance(body[0], ast.Expr) and isinstance(body[0].value, ast.Constant) and isinstance(body[0].value.value, str):
    lines = src.splitlines(True)
    end = body[0].end_lineno
    out = "".join(lines[:end]) + hook + "".join(lines[end:])
else:
    out = hook + src
open(f"/verif/witness/{sys.argv[2]}", "w").write(out)
print("kept", sys.argv[2])
