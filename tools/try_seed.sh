#!/bin/bash
# usage: tools/try_seed.sh <dir with patch.diff demo.py meta.json> [props...]
# Confirms a seeded change in a scratch worktree (demo fails with / passes without, test suite passes with),
# then applies it to /repo, runs the quick checks, and undoes it straight afterwards.
set -u
D=$1; shift
ID=$(basename $D)
WT=/tmp/ev/$ID-$$
mkdir -p /tmp/ev
git -C /repo worktree add -q --detach $WT HEAD || exit 9
cd $WT
PYTHONPATH=$WT /venv/bin/python $D/demo.py >/tmp/ev/$ID.clean.log 2>&1; echo "demo without change: exit=$?"
git apply $D/patch.diff || { echo "PATCH DOES NOT APPLY"; git -C /repo worktree remove --force $WT; exit 8; }
PYTHONPATH=$WT /venv/bin/python $D/demo.py >/tmp/ev/$ID.seeded.log 2>&1; echo "demo with change:    exit=$?"
if [ "${SKIP_TESTS:-0}" != "1" ]; then
  PYTHONPATH=$WT /venv/bin/python -m pytest -q -p no:cacheprovider -n 8 2>&1 | tail -1
fi
cd /verif
git -C /repo worktree remove --force $WT
# now against /repo itself
if ! git -C /repo diff --quiet; then echo "/repo dirty, abort"; exit 7; fi
git -C /repo apply $D/patch.diff
for P in "$@"; do
  /venv/bin/python -m sa.run $P --no-write 2>&1 | grep -v condarc | grep -E "VIOLATION|ANALYSIS-ERROR|^  rope" | cut -c1-300
  echo "  -> $P exit=${PIPESTATUS[0]}"
done
git -C /repo checkout -- .
git -C /repo status --short | head -3
