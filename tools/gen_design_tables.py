"""Regenerates the generated parts of DESIGN.md (between BEGIN/END markers) from seeded/*/meta.json and known_findings.jsonl."""
import json, os, re, subprocess, collections
V = "/verif"
def seeds_table():
    rows = ["| seed | change (one line) | needs, to manifest | detected by | history |", "|---|---|---|---|---|"]
    for name in sorted(os.listdir(f"{V}/seeded")):
        m = json.load(open(f"{V}/seeded/{name}/meta.json"))
        c = m.get("confirmed_by_me", {})
        det = c.get("detected_by") or "**not detected**"
        clean = lambda s: re.sub(r"\s+", " ", str(s)).replace("|", "/")
        rows.append(f"| {name} | {clean(m.get('summary',''))[:230]} | {clean(m.get('needs_to_manifest',''))[:160]} | {det} | {clean(c.get('history',''))[:330]} |")
    return "\n".join(rows)
def findings_tables():
    k = [json.loads(l) for l in open(f"{V}/known_findings.jsonl") if l.strip()]
    fixed = collections.OrderedDict()
    for x in k:
        if x["status"] == "fixed":
            fixed.setdefault(x["commit"], []).append(x)
    log = subprocess.run(["git", "-C", "/repo", "log", "--format=%h %s", "--reverse"], capture_output=True, text=True).stdout.splitlines()
    out = ["**Repaired in /repo** (one `fix:` commit per defect; the existing suite, unedited, passes after each):", "",
           "| commit | subject | rule instances it discharged |", "|---|---|---|"]
    for line in log:
        h, _, subj = line.partition(" ")
        if not subj.startswith("fix:"):
            continue
        keys = [x["key"] for c, xs in fixed.items() if h.startswith(c) or c.startswith(h) for x in xs]
        out.append(f"| {h} | {subj[5:]} | {', '.join('`'+q.replace('|', '¦')+'`' for q in keys) or '(no listed instance)'} |")
    out += ["", "**Recorded, open** (printed as KNOWN-FINDING lines; each with an executed witness):", "",
            "| property | key | what fails |", "|---|---|---|"]
    for x in k:
        if x["status"] == "open":
            out.append(f"| {x['property']} | `{x['key'].replace('|', '¦')}` | {re.sub(r'\\s+', ' ', x['what']).replace('|', '/')[:260]} |")
    c = collections.Counter((x["property"], x["status"]) for x in k)
    out += ["", "Counts (open / fixed) per property: " + ", ".join(f"{p} {c[(p,'open')]}/{c[(p,'fixed')]}" for p in sorted({x['property'] for x in k}))]
    return "\n".join(out)
def rule_index():
    """per property: every rule id the checker emits on the current tree, with its instance counts and the text of one
    passing instance (what the rule establishes when it holds)"""
    import sys
    sys.path.insert(0, V)
    from sa import report
    from sa.run import Ctx, load_rules, PROPS
    ctx = Ctx("quick", 0)
    out = []
    for p in PROPS:
        r = report.Results(p)
        load_rules(p).check(ctx, r)
        by = collections.OrderedDict()
        for i in r.instances:
            by.setdefault(i.rule, []).append(i)
        def num(rule):
            m = re.match(r"R(\d+)\.(\d+)", rule)
            return (int(m.group(1)), int(m.group(2))) if m else (99, 99)
        out += [f"**{p}** ({len(r.instances)} instances)", "", "| rule | ok / fail / undecided | an instance, when it holds |", "|---|---|---|"]
        for rule in sorted(by, key=num):
            xs = by[rule]
            c = collections.Counter(i.status for i in xs)
            ex = next((i for i in xs if i.status == "ok"), xs[0])
            txt = re.sub(r"\s+", " ", ex.what).replace("|", "/")[:200]
            out.append(f"| {rule} | {c['ok']} / {c['fail']} / {c['undecided']} | `{ex.key.replace('|', '¦')[:70]}`: {txt} |")
        out.append("")
    return "\n".join(out)
s = open(f"{V}/DESIGN.md").read()
if "<!-- BEGIN:rules -->" not in s:
    s = s.rstrip("\n") + "\n\n## Appendix A. Rule index (generated from the current tree by tools/gen_design_tables.py)\n\nThe prose sections above introduce the rules in the order they were built (sections 4, 12-17); this index lists every rule id a check emits today.  `fail` counts are the open known findings.\n\n<!-- BEGIN:rules -->\n<!-- END:rules -->\n"
for tag, text in (("seeds", seeds_table()), ("findings", findings_tables()), ("rules", rule_index())):
    b, e = f"<!-- BEGIN:{tag} -->", f"<!-- END:{tag} -->"
    assert b in s and e in s, tag
    s = s[:s.index(b) + len(b)] + "\n" + text + "\n" + s[s.index(e):]
open(f"{V}/DESIGN.md", "w").write(s)
print("ok")
