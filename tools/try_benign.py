"""usage: try_benign.py <patch.diff>... [--props C01,C02]  -- apply each (behaviour-preserving) patch to its own scratch copy of
/repo/rope and report every property whose check would now alarm: new FAIL instances, new UNDECIDED ones, or an
ANALYSIS-ERROR (lost anchor).  Used in round 7 (benign refactorings written by sub-agents): anything printed here is a
false alarm (or a lost anchor) of the machinery.  Patches are evaluated in parallel; the clean tree is analysed once."""
import os, shutil, subprocess, sys, tempfile
from concurrent.futures import ProcessPoolExecutor
sys.path.insert(0, "/verif")
from sa import report
from sa.run import Ctx, load_rules, PROPS

args = [a for a in sys.argv[1:] if not a.startswith("--")]
props = list(PROPS)
if "--props" in sys.argv:
    props = sys.argv[sys.argv.index("--props") + 1].split(",")
    args = [a for a in args if a != sys.argv[sys.argv.index("--props") + 1]]


def run(root):
    out = {}
    ctx = Ctx("quick", 0, root=root)
    for prop in props:
        res = report.Results(prop)
        try:
            load_rules(prop).check(ctx, res)
            out[prop] = {(i.key, i.status): (i.where, i.what[:220]) for i in res.instances}
        except Exception as e:
            out[prop] = f"{type(e).__name__}: {str(e)[:260]}"
    return out


def one(patch):
    tmp = tempfile.mkdtemp(prefix="verif-benign-")
    try:
        shutil.copytree("/repo/rope", os.path.join(tmp, "rope"), ignore=shutil.ignore_patterns("__pycache__"))
        r = subprocess.run(["patch", "-p1", "-s", "-i", os.path.abspath(patch)], cwd=tmp, capture_output=True, text=True)
        if r.returncode != 0:
            return patch, None, "PATCH DOES NOT APPLY " + r.stdout[-200:]
        return patch, run(tmp), None
    finally:
        shutil.rmtree(tmp, ignore_errors=True)


if __name__ == "__main__":
    base = run(None)
    total = 0
    with ProcessPoolExecutor(max_workers=12) as ex:
        for patch, new, err in ex.map(one, args):
            lines = []
            if err:
                lines.append("  " + err)
            else:
                for prop in props:
                    if isinstance(new[prop], str):
                        lines.append(f"  {prop} ANALYSIS-ERROR {new[prop]}")
                        continue
                    for (k, st), (where, what) in sorted(new[prop].items()):
                        if st != report.OK and (k, st) not in base[prop]:
                            lines.append(f"  {prop} {st.upper()} {k} @ {where} -- {what}")
            print(("ALARM " if lines else "clean ") + patch)
            for l in lines:
                print(l)
            total += len(lines)
    print(f"{len(args)} patches, {total} alarm line(s)")
