import sys, json
sys.path.insert(0,'/verif')
from sa import mutations
from sa.run import PROPS
from concurrent.futures import ProcessPoolExecutor
def one(p): return p, mutations.run(p, 0)
with ProcessPoolExecutor(16) as ex:
    for p, r in ex.map(one, PROPS):
        print(p, 'variants', r['variants'], 'detected', r['detected'], 'skipped', len(r['skipped']))
        for f in r['failed']: print('   FAILED', f[:220])
        for f in r['skipped']: print('   skipped', f[:160])
