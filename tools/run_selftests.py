"""Runs the thorough-tier self-test of every property in parallel and prints one line per property:
mutants/seeds detected, invariance under reformatting, benign refactorings without alarm."""
import sys, json, time
sys.path.insert(0,'/verif')
from sa import selftest
from sa.run import PROPS
from concurrent.futures import ProcessPoolExecutor
def one(p):
    t = time.time(); r = selftest.run(p, 0); return p, r, time.time() - t
if __name__ == "__main__":
    tv = td = tb = 0
    with ProcessPoolExecutor(16) as ex:
        for p, r, dt in ex.map(one, PROPS):
            b = r.get("benign_refactorings", {})
            print(p, 'variants', r['variants'], 'detected', r['detected'], 'skipped', len(r['skipped']),
                  '| reformat-diffs', len(r['invariance_under_reformatting']['differences']),
                  '| benign', b.get('patches'), 'alarms', len(b.get('alarms', [])), 'skipped', b.get('skipped'), f'| {dt:.0f}s')
            tv += r['variants']; td += r['detected']; tb += b.get('patches', 0)
            for f in r.get('failed', []): print('   FAILED', f[:260])
            for f in r['skipped']: print('   skipped', f[:160])
    print('total variants', tv, 'detected', td, 'benign patch runs', tb)
