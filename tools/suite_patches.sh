#!/bin/bash
# usage: suite_patches.sh <patch>...   -- each patch on its own worktree of /repo HEAD, full suite
run() { p=$1; T=$(mktemp -d /tmp/sp-XXXX); git -C /repo worktree add -q --detach $T/wt HEAD; cd $T/wt; if git apply $p; then r=$(PYTHONPATH=$T/wt /venv/bin/python -m pytest -q -p no:cacheprovider -n 3 -x 2>&1 | tail -1); else r="DOES NOT APPLY"; fi; echo "$p :: $r"; cd /; git -C /repo worktree remove --force $T/wt; rm -rf $T; }
export -f run
printf "%s\n" "$@" | xargs -P 5 -I{} bash -c 'run {}'
