#!/bin/bash
# usage: tools/check_seed.sh <seed dir> <props...>  -- runs the checks of the given properties against a scratch copy of /repo/rope
# with the seed's patch applied (never touches /repo); prints the new findings
D=$1; shift
T=$(mktemp -d /tmp/verif-chk-XXXX)
cp -r /repo/rope $T/rope
(cd $T && patch -p1 -s -i $D/patch.diff) || { echo "PATCH FAILED"; rm -rf $T; exit 2; }
for P in "$@"; do
  VERIF_REPO=$T /venv/bin/python -m sa.run $P --no-write 2>&1 | grep -E "^  rope|ANALYSIS-ERROR" | cut -c1-230
  echo "  -> $P exit=${PIPESTATUS[0]}"
done
rm -rf $T
