"""usage: recheck_seed_demos.py  -- every kept seed is still what it claims: its patch applies to /repo HEAD, its demo exits 0 without the patch and
non-zero with it.  (A later repair can make a seed harmless: the check that used to catch it would then be raising a false alarm.)  One scratch
worktree per seed, /repo untouched; the full test suite is NOT run here (tools/eval_seeds.py does that)."""
import os, shutil, subprocess, sys, tempfile
from concurrent.futures import ThreadPoolExecutor

def sh(cmd, cwd=None, env=None, timeout=600):
    try:
        p = subprocess.run(cmd, shell=True, cwd=cwd, env=env, capture_output=True, text=True, timeout=timeout)
        return p.returncode, p.stdout + p.stderr
    except subprocess.TimeoutExpired:
        return 124, "timeout"

def one(name):
    d = f"/verif/seeded/{name}"
    wt = tempfile.mkdtemp(prefix=f"verif-recheck-{name}-", dir="/tmp")
    os.rmdir(wt)
    try:
        rc, o = sh(f"git -C /repo worktree add -q --detach {wt} HEAD")
        if rc:
            return name, "worktree failed"
        env = dict(os.environ, PYTHONPATH=wt)
        rc0, _ = sh(f"/venv/bin/python {d}/demo.py", cwd=wt, env=env)
        rc, o = sh(f"git apply {d}/patch.diff", cwd=wt)
        if rc:
            return name, "PATCH DOES NOT APPLY"
        rc1, _ = sh(f"/venv/bin/python {d}/demo.py", cwd=wt, env=env)
        return name, f"without={rc0} with={rc1}" + ("" if rc0 == 0 and rc1 != 0 else "   <-- STALE")
    finally:
        sh(f"git -C /repo worktree remove --force {wt}")
        shutil.rmtree(wt, ignore_errors=True)

if __name__ == "__main__":
    names = sorted(os.listdir("/verif/seeded"))
    bad = 0
    with ThreadPoolExecutor(6) as ex:
        for name, r in ex.map(one, names):
            if "STALE" in r or "APPLY" in r or "failed" in r:
                bad += 1
                print(name, r, flush=True)
    print(f"{len(names)} seeds rechecked, {bad} need attention")
