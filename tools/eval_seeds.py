"""usage: eval_seeds.py <seed dir>...   (each holds patch.diff, demo.py, meta.json; the directory name starts with the property id)
Confirms each seeded change in its OWN scratch worktree of /repo -- demo passes without / fails with the change, the
pinned suite passes with it -- and runs the property's check against that worktree (VERIF_REPO).  /repo itself is never
modified, so several seeds can be evaluated in parallel and while other work goes on.  Prints one block per seed."""
import json, os, shutil, subprocess, sys, tempfile
from concurrent.futures import ThreadPoolExecutor

def sh(cmd, cwd=None, env=None, timeout=1800):
    p = subprocess.run(cmd, shell=True, cwd=cwd, env=env, capture_output=True, text=True, timeout=timeout)
    return p.returncode, (p.stdout + p.stderr)

def one(d):
    d = os.path.abspath(d)
    name = os.path.basename(d.rstrip("/"))
    prop = name[:3]
    wt = tempfile.mkdtemp(prefix=f"verif-evalseed-{name}-", dir="/tmp")
    os.rmdir(wt)
    out = [f"== {name}"]
    try:
        rc, o = sh(f"git -C /repo worktree add -q --detach {wt} HEAD")
        if rc:
            return "\n".join(out + ["worktree failed: " + o[-200:]])
        env = dict(os.environ, PYTHONPATH=wt)
        rc0, _ = sh(f"/venv/bin/python {d}/demo.py", cwd=wt, env=env)
        rc, o = sh(f"git apply {d}/patch.diff", cwd=wt)
        if rc:
            return "\n".join(out + ["PATCH DOES NOT APPLY " + o[-200:]])
        rc1, _ = sh(f"/venv/bin/python {d}/demo.py", cwd=wt, env=env)
        out.append(f"demo without change: exit={rc0}   with change: exit={rc1}")
        _, o = sh("/venv/bin/python -m pytest -q -p no:cacheprovider -n 4 2>&1 | tail -1", cwd=wt, env=env)
        out.append("suite: " + o.strip()[-90:])
        props = [prop] + [p for p in sys.argv_extra if p != prop]
        for p in props:
            rc, o = sh(f"/venv/bin/python -m sa.run {p} --no-write", cwd="/verif", env=dict(os.environ, VERIF_REPO=wt))
            lines = [l[:260] for l in o.splitlines() if l.startswith("  rope") or "ANALYSIS-ERROR" in l]
            out += lines[:4]
            out.append(f"  -> {p} exit={rc}")
    finally:
        sh(f"git -C /repo worktree remove --force {wt}")
        shutil.rmtree(wt, ignore_errors=True)
    return "\n".join(out)

if __name__ == "__main__":
    args = [a for a in sys.argv[1:] if not a.startswith("--also=")]
    sys.argv_extra = [p for a in sys.argv[1:] if a.startswith("--also=") for p in a[7:].split(",")]
    with ThreadPoolExecutor(4) as ex:
        for r in ex.map(one, args):
            print(r, flush=True)
